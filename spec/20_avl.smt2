; avl.smt2 — the abstract IAVL+ tree and its algorithms, written from
; docs/ (AVL+ tree: values in leaves, inner nodes carry the least key of their
; right subtree, standard AVL rebalancing with the documented tie-breaks) and
; the property statements, not from the Go code.
;
;@region N github.com/cosmos/iavl.Node github.com/cosmos/iavl.NodeKey comp:BM
;
; A content (Cnt) identifies a byte string by its position in the
; lexicographic order (c_ord, injective) and its length.
(declare-datatypes ((Cnt 0)) (((mkCnt (c_ord Real) (c_len Int)))))
(define-sort BMS () (Array Int (Array Int Int)))
(define-fun cntOfBM ((bm BMS) (s Slice)) Cnt (mkCnt (ordRow (select bm (s_base s)) (s_off s) (s_len s)) (s_len s)))
;@specfn cntOfBM BM : Slice -> Cnt
;@specfn mkCnt : Real Int -> Cnt
;@specfn c_ord : Cnt -> Real
;@specfn c_len : Cnt -> Int

; T: TNil is the empty tree (only at the root).  ver = 0 means "not yet
; committed" (the node gets the version of the commit that persists it).
(declare-datatypes ((T 0)) (((TNil)
  (Leaf (l_key Cnt) (l_val Cnt) (l_ver Int))
  (Inner (i_key Cnt) (i_hgt Int) (i_siz Int) (i_ver Int) (i_left T) (i_right T)))))
;@const TNil T
;@specfn Leaf : Cnt Cnt Int -> T
;@specfn Inner : Cnt Int Int Int T T -> T
;@specfn i_left : T -> T
;@specfn i_right : T -> T
;@specfn i_key : T -> Cnt
;@specfn l_key : T -> Cnt
;@specfn l_val : T -> Cnt
(define-fun isLeaf ((t T)) Bool ((_ is Leaf) t))
(define-fun isInner ((t T)) Bool ((_ is Inner) t))
(define-fun isTNil ((t T)) Bool ((_ is TNil) t))
;@specfn isLeaf : T -> Bool
;@specfn isInner : T -> Bool
;@specfn isTNil : T -> Bool
(define-fun hgt ((t T)) Int (ite ((_ is Inner) t) (i_hgt t) 0))
(define-fun siz ((t T)) Int (ite ((_ is Inner) t) (i_siz t) (ite ((_ is Leaf) t) 1 0)))
(define-fun tver ((t T)) Int (ite ((_ is Inner) t) (i_ver t) (ite ((_ is Leaf) t) (l_ver t) 0)))
(define-fun tkey ((t T)) Cnt (ite ((_ is Inner) t) (i_key t) (l_key t)))
;@specfn hgt : T -> Int
;@specfn siz : T -> Int
;@specfn tver : T -> Int
;@specfn tkey : T -> Cnt
(define-fun imax ((a Int) (b Int)) Int (ite (< a b) b a))
; mk: a freshly (re)computed inner node over two subtrees
(define-fun mk ((k Cnt) (l T) (r T)) T (Inner k (+ (imax (hgt l) (hgt r)) 1) (+ (siz l) (siz r)) 0 l r))
;@specfn mk : Cnt T T -> T
;@specfn imax : Int Int -> Int
; unver: the uncommitted copy of an inner node (clone)
(define-fun unver ((t T)) T (ite ((_ is Inner) t) (Inner (i_key t) (i_hgt t) (i_siz t) 0 (i_left t) (i_right t)) t))
;@specfn unver : T -> T
; setLeft / setRight: replace one child leaving the stored height and size as they are
(define-fun setLeft ((t T) (l T)) T (Inner (i_key t) (i_hgt t) (i_siz t) (i_ver t) l (i_right t)))
(define-fun setRight ((t T) (r T)) T (Inner (i_key t) (i_hgt t) (i_siz t) (i_ver t) (i_left t) r))
;@specfn setLeft : T T -> T
;@specfn setRight : T T -> T

; structural well-formedness: stored heights and sizes are the real ones
(define-fun-rec wfT ((t T)) Bool
  (ite ((_ is Inner) t)
    (and (wfT (i_left t)) (wfT (i_right t)) (not ((_ is TNil) (i_left t))) (not ((_ is TNil) (i_right t)))
         (= (i_hgt t) (+ (imax (hgt (i_left t)) (hgt (i_right t))) 1))
         (= (i_siz t) (+ (siz (i_left t)) (siz (i_right t)))))
    true))
;@specfn wfT : T -> Bool

; rotations (docs: rotate right lifts the left child)
(define-fun-opaque rotR ((t T)) T
  (mk (i_key (i_left t)) (i_left (i_left t)) (mk (i_key t) (i_right (i_left t)) (i_right t))))
(define-fun-opaque rotL ((t T)) T
  (mk (i_key (i_right t)) (mk (i_key t) (i_left t) (i_left (i_right t))) (i_right (i_right t))))
;@specfn rotR : T -> T
;@specfn rotL : T -> T
(define-fun balf ((t T)) Int (- (hgt (i_left t)) (hgt (i_right t))))
;@specfn balf : T -> Int
; bal: the four documented cases; ties (child balance 0) take the single rotation
(define-fun-opaque bal ((t T)) T
  (ite (> (balf t) 1)
       (ite (>= (balf (i_left t)) 0)
            (rotR t)
            (rotR (setLeft t (rotL (i_left t)))))
  (ite (< (balf t) (- 1))
       (ite (<= (balf (i_right t)) 0)
            (rotL t)
            (rotL (setRight t (rotR (i_right t)))))
       t)))
;@specfn bal : T -> T

; membership and lookup (keys compared by content order)
(define-fun-rec has ((t T) (k Real)) Bool
  (ite ((_ is Inner) t) (ite (< k (c_ord (i_key t))) (has (i_left t) k) (has (i_right t) k))
  (ite ((_ is Leaf) t) (= k (c_ord (l_key t))) false)))
;@specfn has : T Real -> Bool
(define-fun-rec lookup ((t T) (k Real)) Cnt
  (ite ((_ is Inner) t) (ite (< k (c_ord (i_key t))) (lookup (i_left t) k) (lookup (i_right t) k))
  (ite ((_ is Leaf) t) (l_val t) (mkCnt 0.0 0))))
;@specfn lookup : T Real -> Cnt
; rank: number of keys strictly smaller than k
(define-fun-rec rank ((t T) (k Real)) Int
  (ite ((_ is Inner) t)
       (ite (< k (c_ord (i_key t))) (rank (i_left t) k) (+ (siz (i_left t)) (rank (i_right t) k)))
  (ite ((_ is Leaf) t) (ite (< (c_ord (l_key t)) k) 1 0) 0)))
;@specfn rank : T Real -> Int
; nth: the i-th leaf in key order (TNil if out of range)
(define-fun-rec nth ((t T) (i Int)) T
  (ite ((_ is Inner) t)
       (ite (< i (siz (i_left t))) (nth (i_left t) i) (nth (i_right t) (- i (siz (i_left t)))))
  (ite (and ((_ is Leaf) t) (= i 0)) t TNil)))
;@specfn nth : T Int -> T

; insertion
(define-fun-rec ins ((t T) (k Cnt) (v Cnt)) T
  (ite ((_ is Inner) t)
       (ite (< (c_ord k) (c_ord (i_key t)))
            (ite (has (i_left t) (c_ord k))
                 (setLeft (unver t) (ins (i_left t) k v))
                 (bal (mk (i_key t) (ins (i_left t) k v) (i_right t))))
            (ite (has (i_right t) (c_ord k))
                 (setRight (unver t) (ins (i_right t) k v))
                 (bal (mk (i_key t) (i_left t) (ins (i_right t) k v)))))
  (ite ((_ is Leaf) t)
       (ite (< (c_ord k) (c_ord (l_key t))) (Inner (l_key t) 1 2 0 (Leaf k v 0) t)
       (ite (> (c_ord k) (c_ord (l_key t))) (Inner k 1 2 0 t (Leaf k v 0))
            (Leaf k v 0)))
       (Leaf k v 0))))
;@specfn ins : T Cnt Cnt -> T

; removal: result tree (TNil if the subtree vanished), whether a new least
; key has to be propagated to the nearest ancestor that was entered through
; its right child, that key, the removed value, and whether anything was removed
(declare-datatypes ((DelRes 0)) (((mkDel (d_tree T) (d_haskey Bool) (d_key Cnt) (d_val Cnt) (d_removed Bool)))))
;@specfn d_tree : DelRes -> T
;@specfn d_haskey : DelRes -> Bool
;@specfn d_key : DelRes -> Cnt
;@specfn d_val : DelRes -> Cnt
;@specfn d_removed : DelRes -> Bool
(define-fun-rec del ((t T) (k Real)) DelRes
  (ite ((_ is Inner) t)
       (ite (< k (c_ord (i_key t)))
            (let ((d (del (i_left t) k)))
              (ite (not (d_removed d)) (mkDel (unver t) false (mkCnt 0.0 0) (mkCnt 0.0 0) false)
              (ite ((_ is TNil) (d_tree d)) (mkDel (i_right t) true (i_key t) (d_val d) true)
                   (mkDel (bal (mk (i_key t) (d_tree d) (i_right t))) (d_haskey d) (d_key d) (d_val d) true))))
            (let ((d (del (i_right t) k)))
              (ite (not (d_removed d)) (mkDel (unver t) false (mkCnt 0.0 0) (mkCnt 0.0 0) false)
              (ite ((_ is TNil) (d_tree d)) (mkDel (i_left t) false (mkCnt 0.0 0) (d_val d) true)
                   (mkDel (bal (mk (ite (d_haskey d) (d_key d) (i_key t)) (i_left t) (d_tree d))) false (mkCnt 0.0 0) (d_val d) true)))))
  (ite (and ((_ is Leaf) t) (= k (c_ord (l_key t))))
       (mkDel TNil false (mkCnt 0.0 0) (l_val t) true)
       (mkDel t false (mkCnt 0.0 0) (mkCnt 0.0 0) false))))
;@specfn del : T Real -> DelRes

; ---------------------------------------------------------------------------
; Heap abstraction: the view of an in-memory *Node.
; dbview(k): the persisted subtree stored under node key k (identified by the
; content order of the key bytes); fixed during a tree operation (DESIGN §5).
(declare-fun dbview (Real) T)
;@specfn dbview : Real -> T
(define-fun cntOf ((h RegN) (s Slice)) Cnt (cntOfBM (RegN_BM h) s))
;@specfn cntOf N : Slice -> Cnt
(define-fun nd ((h RegN) (n Int)) iavl_Node (select (RegN_iavl_Node h) n))
(define-fun nodeVer ((h RegN) (n Int)) Int
  (ite (= (iavl_Node_nodeKey (nd h n)) 0) 0
       (iavl_NodeKey_version (select (RegN_iavl_NodeKey h) (iavl_Node_nodeKey (nd h n))))))
;@specfn nodeVer N : Int -> Int
(define-fun ordS ((h RegN) (s Slice)) Real (ordRow (select (RegN_BM h) (s_base s)) (s_off s) (s_len s)))
(declare-fun view (RegN Int) T)
(declare-fun valid (RegN Int) Bool)
;@specfn view N : Int -> T
;@specfn valid N : Int -> Bool
; viewC/validC: the same functions as view/valid, under a second name that
; does not trigger further unfolding (one level of unfolding per mentioned
; node; keeps quantifier instantiation from descending the tree forever)
(declare-fun viewC (RegN Int) T)
(declare-fun validC (RegN Int) Bool)
(assert (forall ((h RegN) (n Int)) (! (= (viewC h n) (view h n)) :pattern ((view h n)))))
(assert (forall ((h RegN) (n Int)) (! (= (validC h n) (valid h n)) :pattern ((valid h n)))))
; nodes that are values of the program (parameters, loaded pointers, call
; results) are unfolded as well; the engine marks them with namedN
(declare-fun namedN (Int) Bool)
;@named github.com/cosmos/iavl.Node namedN
(assert (forall ((h RegN) (n Int)) (! (= (viewC h n) (view h n)) :pattern ((viewC h n) (namedN n)))))
(assert (forall ((h RegN) (n Int)) (! (= (validC h n) (valid h n)) :pattern ((validC h n) (namedN n)))))
(define-fun cview ((h RegN) (c Int) (ck Slice)) T
  (ite (not (= c 0)) (viewC h c) (dbview (ordS h ck))))
(define-fun lview ((h RegN) (n Int)) T (cview h (iavl_Node_leftNode (nd h n)) (iavl_Node_leftNodeKey (nd h n))))
(define-fun rview ((h RegN) (n Int)) T (cview h (iavl_Node_rightNode (nd h n)) (iavl_Node_rightNodeKey (nd h n))))
;@specfn lview N : Int -> T
;@specfn rview N : Int -> T

; child well-formedness of an inner node n (children valid; an uncommitted
; node holds both children in memory; an in-memory child of a committed node
; is the persisted child)
(define-fun childOK ((h RegN) (n Int) (c Int) (ck Slice)) Bool
  (and (=> (not (= c 0)) (validC h c))
       (=> (= c 0) (and (not (= (iavl_Node_nodeKey (nd h n)) 0)) (not (= (s_base ck) 0))))
       (=> (and (not (= c 0)) (not (= (iavl_Node_nodeKey (nd h n)) 0)))
           (and (not (= (iavl_Node_nodeKey (nd h c)) 0)) (not (= (s_base ck) 0)) (= (viewC h c) (dbview (ordS h ck)))))))
(define-fun childrenOK ((h RegN) (n Int)) Bool
  (and (childOK h n (iavl_Node_leftNode (nd h n)) (iavl_Node_leftNodeKey (nd h n)))
       (childOK h n (iavl_Node_rightNode (nd h n)) (iavl_Node_rightNodeKey (nd h n)))
       (not ((_ is TNil) (lview h n))) (not ((_ is TNil) (rview h n)))
       (wfT (lview h n)) (wfT (rview h n))))
;@specfn childrenOK N : Int -> Bool

; shape(n): n is a node whose children are well-formed (its own stored height
; and size need not be up to date: the state of a node under reconstruction)
(define-fun shape ((h RegN) (n Int)) Bool
  (and (> n 0)
       (>= (iavl_Node_subtreeHeight (nd h n)) 0)
       (=> (= (iavl_Node_subtreeHeight (nd h n)) 0)
           (and (= (iavl_Node_size (nd h n)) 1) (not (= (s_base (iavl_Node_value (nd h n))) 0))))
       (=> (> (iavl_Node_subtreeHeight (nd h n)) 0) (and (childrenOK h n) (not (= (s_base (iavl_Node_key (nd h n))) 0))))))
;@specfn shape N : Int -> Bool
; valid(n): n is a well-formed node (heights/sizes consistent all the way down)
(assert (forall ((h RegN) (n Int))
  (! (= (valid h n)
        (and (shape h n)
             (=> (> (iavl_Node_subtreeHeight (nd h n)) 0)
                 (and (= (iavl_Node_subtreeHeight (nd h n)) (+ (imax (hgt (lview h n)) (hgt (rview h n))) 1))
                      (= (iavl_Node_size (nd h n)) (+ (siz (lview h n)) (siz (rview h n))))))))
     :pattern ((valid h n)))))
(assert (forall ((h RegN) (n Int))
  (! (=> (valid h n)
         (and (= (view h n)
            (ite (= (iavl_Node_subtreeHeight (nd h n)) 0)
                 (Leaf (cntOf h (iavl_Node_key (nd h n))) (cntOf h (iavl_Node_value (nd h n))) (nodeVer h n))
                 (Inner (cntOf h (iavl_Node_key (nd h n))) (iavl_Node_subtreeHeight (nd h n)) (iavl_Node_size (nd h n)) (nodeVer h n)
                        (lview h n) (rview h n))))
              (wfT (view h n))))
     :pattern ((view h n)))))

; the persisted trees are well-formed too
(declare-fun dbok (Real) Bool)
;@specfn dbok : Real -> Bool

; ---------------------------------------------------------------------------
; Frames over the Node region.
;
; sameNode: every field of the node record that the view depends on is kept;
; an in-memory child pointer of a committed node may have been dropped
; (Node.clone does that) and the memoised hash may have been filled in.
(define-fun sameNode ((a iavl_Node) (b iavl_Node)) Bool
  (and (= (iavl_Node_key b) (iavl_Node_key a)) (= (iavl_Node_value b) (iavl_Node_value a))
       (= (iavl_Node_nodeKey b) (iavl_Node_nodeKey a))
       (= (iavl_Node_leftNodeKey b) (iavl_Node_leftNodeKey a)) (= (iavl_Node_rightNodeKey b) (iavl_Node_rightNodeKey a))
       (= (iavl_Node_size b) (iavl_Node_size a)) (= (iavl_Node_subtreeHeight b) (iavl_Node_subtreeHeight a))
       (= (iavl_Node_isLegacy b) (iavl_Node_isLegacy a))
       (or (= (iavl_Node_leftNode b) (iavl_Node_leftNode a)) (and (= (iavl_Node_leftNode b) 0) (not (= (iavl_Node_nodeKey a) 0))))
       (or (= (iavl_Node_rightNode b) (iavl_Node_rightNode a)) (and (= (iavl_Node_rightNode b) 0) (not (= (iavl_Node_nodeKey a) 0))))))
; nframe(h0,h1,na0): every node and node key below na0 is kept (sameNode)
(declare-fun nframe (RegN RegN Int) Bool)
;@specfn nframe : RegN RegN Int -> Bool
(assert (forall ((h0 RegN) (h1 RegN) (na0 Int))
  (! (= (nframe h0 h1 na0)
        (and (forall ((r Int)) (! (=> (and (< 0 r) (< r na0)) (sameNode (select (RegN_iavl_Node h0) r) (select (RegN_iavl_Node h1) r)))
                                  :pattern ((select (RegN_iavl_Node h1) r))))
             (forall ((r Int)) (! (=> (and (< 0 r) (< r na0)) (= (select (RegN_iavl_NodeKey h1) r) (select (RegN_iavl_NodeKey h0) r)))
                                  :pattern ((select (RegN_iavl_NodeKey h1) r))))
             (forall ((r Int)) (! (=> (and (< 0 r) (< r na0)) (= (select (RegN_BM h1) r) (select (RegN_BM h0) r)))
                                  :pattern ((select (RegN_BM h1) r))))))
     :pattern ((nframe h0 h1 na0)))))
; nframeX(h0,h1,na0,x): as nframe, except that node x (an uncommitted node
; nobody points to) may have been rewritten
(declare-fun nframeX (RegN RegN Int Int) Bool)
;@specfn nframeX : RegN RegN Int Int -> Bool
(assert (forall ((h0 RegN) (h1 RegN) (na0 Int) (x Int))
  (! (= (nframeX h0 h1 na0 x)
        (and (forall ((r Int)) (! (=> (and (< 0 r) (< r na0) (not (= r x))) (sameNode (select (RegN_iavl_Node h0) r) (select (RegN_iavl_Node h1) r)))
                                  :pattern ((select (RegN_iavl_Node h1) r))))
             (forall ((r Int)) (! (=> (and (< 0 r) (< r na0)) (= (select (RegN_iavl_NodeKey h1) r) (select (RegN_iavl_NodeKey h0) r)))
                                  :pattern ((select (RegN_iavl_NodeKey h1) r))))
             (forall ((r Int)) (! (=> (and (< 0 r) (< r na0)) (= (select (RegN_BM h1) r) (select (RegN_BM h0) r)))
                                  :pattern ((select (RegN_BM h1) r))))))
     :pattern ((nframeX h0 h1 na0 x)))))

; inptr[x]: a pointer to node x has been stored into the leftNode/rightNode
; field of some node (ghost, updated by the engine at every such store).
;@ghost inptr (Array Int Bool)
;@onstore iavl.Node.leftNode ghostset inptr
;@onstore iavl.Node.rightNode ghostset inptr
; ptrinv: invariant of the instrumented semantics — every child pointer held
; in a node is recorded in inptr, child pointers point to allocated nodes, and
; nothing is recorded for unallocated ids.
(declare-fun ptrinv (RegN (Array Int Bool) Int) Bool)
(assert (forall ((h RegN) (inp (Array Int Bool)) (na Int)) (! (= (ptrinv h inp na)
  (and (forall ((r Int)) (! (and (=> (not (= (iavl_Node_leftNode (select (RegN_iavl_Node h) r)) 0))
                                     (and (select inp (iavl_Node_leftNode (select (RegN_iavl_Node h) r))) (< (iavl_Node_leftNode (select (RegN_iavl_Node h) r)) na) (< 0 (iavl_Node_leftNode (select (RegN_iavl_Node h) r)))))
                                 (=> (not (= (iavl_Node_rightNode (select (RegN_iavl_Node h) r)) 0))
                                     (and (select inp (iavl_Node_rightNode (select (RegN_iavl_Node h) r))) (< (iavl_Node_rightNode (select (RegN_iavl_Node h) r)) na) (< 0 (iavl_Node_rightNode (select (RegN_iavl_Node h) r))))))
                            :pattern ((select (RegN_iavl_Node h) r))))
       (forall ((r Int)) (! (let ((x (select (RegN_iavl_Node h) r)))
                               (and (< (s_base (iavl_Node_key x)) na) (< (s_base (iavl_Node_value x)) na) (< (s_base (iavl_Node_hash x)) na)
                                    (< (s_base (iavl_Node_leftNodeKey x)) na) (< (s_base (iavl_Node_rightNodeKey x)) na)
                                    (wfSlice (iavl_Node_key x)) (wfSlice (iavl_Node_value x)) (wfSlice (iavl_Node_leftNodeKey x)) (wfSlice (iavl_Node_rightNodeKey x)) (wfSlice (iavl_Node_hash x))
                                    (<= 0 (iavl_Node_nodeKey x)) (< (iavl_Node_nodeKey x) na)))
                            :pattern ((select (RegN_iavl_Node h) r))))
       true))
  :pattern ((ptrinv h inp na)))))
;@onalloc github.com/cosmos/iavl.Node ghostclear inptr
;@stateinv ptrinv N ghost:inptr na
; storeFactN: what a single store into node x means for the frame predicates
; (all other objects are untouched by a store).
(define-fun storeFactN ((h0 RegN) (inp0 (Array Int Bool)) (na0 Int) (h1 RegN) (x Int)) Bool
  (and (nframeX h0 h1 na0 x)
       (=> (>= x na0) (nframe h0 h1 na0))
       (=> (sameNode (select (RegN_iavl_Node h0) x) (select (RegN_iavl_Node h1) x)) (nframe h0 h1 na0))))
;@storefact iavl.Node storeFactN N ghost:inptr na

; Frame lemmas (proved by induction on the height of the view in
; /verif/spec/avl.lemmas): valid nodes keep validity and view
;  (1) across an nframe step;
;  (2) across an nframeX step, if x had no incoming pointer (so x is in nobody's subtree).
(assert (forall ((h0 RegN) (h1 RegN) (na0 Int) (r Int))
  (! (=> (and (nframe h0 h1 na0) (< 0 r) (< r na0) (validC h0 r))
         (and (validC h1 r) (= (viewC h1 r) (viewC h0 r))))
     :pattern ((nframe h0 h1 na0) (viewC h1 r)))))
(assert (forall ((h0 RegN) (h1 RegN) (na0 Int) (r Int))
  (! (=> (and (nframe h0 h1 na0) (< 0 r) (< r na0) (validC h0 r))
         (and (validC h1 r) (= (viewC h1 r) (viewC h0 r))))
     :pattern ((nframe h0 h1 na0) (validC h1 r)))))
(declare-fun unref (RegN Int) Bool)   ; no node's child pointer equals x
;@specfn unref N : Int -> Bool
(assert (forall ((h RegN) (x Int))
  (! (= (unref h x) (forall ((r Int)) (! (and (not (= (iavl_Node_leftNode (select (RegN_iavl_Node h) r)) x)) (not (= (iavl_Node_rightNode (select (RegN_iavl_Node h) r)) x)))
                                         :pattern ((select (RegN_iavl_Node h) r)))))
     :pattern ((unref h x)))))
(assert (forall ((h0 RegN) (h1 RegN) (na0 Int) (x Int) (r Int))
  (! (=> (and (nframeX h0 h1 na0 x) (unref h0 x) (< 0 r) (< r na0) (not (= r x)) (validC h0 r))
         (and (validC h1 r) (= (viewC h1 r) (viewC h0 r))))
     :pattern ((nframeX h0 h1 na0 x) (viewC h1 r)))))
(assert (forall ((h0 RegN) (h1 RegN) (na0 Int) (x Int) (r Int))
  (! (=> (and (nframeX h0 h1 na0 x) (unref h0 x) (< 0 r) (< r na0) (not (= r x)) (validC h0 r))
         (and (validC h1 r) (= (viewC h1 r) (viewC h0 r))))
     :pattern ((nframeX h0 h1 na0 x) (validC h1 r)))))
; ptrinv and "not recorded in inptr" give unref
(assert (forall ((h RegN) (inp (Array Int Bool)) (na Int) (x Int))
  (! (=> (and (ptrinv h inp na) (not (select inp x)) (not (= x 0))) (unref h x))
     :pattern ((ptrinv h inp na) (unref h x)))))

; closed(h,e): no object below e holds a child pointer at or above e.  True
; when object e is allocated (pointers are below the allocation counter) and
; kept as long as pointers to objects >= e are stored only into objects >= e.
(declare-fun closed (RegN Int) Bool)
;@specfn closed N : Int -> Bool
(assert (forall ((h RegN) (e Int))
  (! (= (closed h e) (forall ((r Int)) (! (=> (< r e) (and (< (iavl_Node_leftNode (select (RegN_iavl_Node h) r)) e) (< (iavl_Node_rightNode (select (RegN_iavl_Node h) r)) e)))
                                         :pattern ((select (RegN_iavl_Node h) r)))))
     :pattern ((closed h e)))))
;  (3) across an nframeX step at x, every valid node below x is kept when the heap is closed at x
(assert (forall ((h0 RegN) (h1 RegN) (na0 Int) (x Int) (r Int))
  (! (=> (and (nframeX h0 h1 na0 x) (closed h0 x) (< 0 r) (< r x) (<= x na0) (validC h0 r))
         (and (validC h1 r) (= (viewC h1 r) (viewC h0 r))))
     :pattern ((nframeX h0 h1 na0 x) (viewC h1 r)))))
(assert (forall ((h0 RegN) (h1 RegN) (na0 Int) (x Int) (r Int))
  (! (=> (and (nframeX h0 h1 na0 x) (closed h0 x) (< 0 r) (< r x) (<= x na0) (validC h0 r))
         (and (validC h1 r) (= (viewC h1 r) (viewC h0 r))))
     :pattern ((nframeX h0 h1 na0 x) (validC h1 r)))))
;  (4) closedness at e survives steps that only rewrite objects at or above e
(assert (forall ((h0 RegN) (h1 RegN) (na0 Int) (e Int))
  (! (=> (and (closed h0 e) (nframe h0 h1 na0) (<= e na0)) (closed h1 e))
     :pattern ((closed h0 e) (nframe h0 h1 na0)))))
(assert (forall ((h0 RegN) (h1 RegN) (na0 Int) (x Int) (e Int))
  (! (=> (and (closed h0 e) (nframeX h0 h1 na0 x) (<= e x) (<= e na0)) (closed h1 e))
     :pattern ((closed h0 e) (nframeX h0 h1 na0 x)))))
; (5) sizes and heights of well-formed trees are positive / non-negative
;     (lemma wf_bounds in 40_model.lemmas, by induction on the tree)
;@axiom-begin wf_bounds
(assert (forall ((t T)) (! (=> (and (wfT t) (not ((_ is TNil) t))) (and (>= (siz t) 1) (>= (hgt t) 0) (=> ((_ is Inner) t) (>= (hgt t) 1))))
  :pattern ((wfT t)))))
;@axiom-end wf_bounds

;  (6) a node without in-memory children depends on nothing but its own record
(assert (forall ((h0 RegN) (h1 RegN) (na0 Int) (x Int) (r Int))
  (! (=> (and (nframeX h0 h1 na0 x) (< 0 r) (< r na0) (not (= r x)) (validC h0 r)
              (= (iavl_Node_leftNode (select (RegN_iavl_Node h0) r)) 0) (= (iavl_Node_rightNode (select (RegN_iavl_Node h0) r)) 0))
         (and (validC h1 r) (= (viewC h1 r) (viewC h0 r))))
     :pattern ((nframeX h0 h1 na0 x) (viewC h1 r)))))
(assert (forall ((h0 RegN) (h1 RegN) (na0 Int) (x Int) (r Int))
  (! (=> (and (nframeX h0 h1 na0 x) (< 0 r) (< r na0) (not (= r x)) (validC h0 r)
              (= (iavl_Node_leftNode (select (RegN_iavl_Node h0) r)) 0) (= (iavl_Node_rightNode (select (RegN_iavl_Node h0) r)) 0))
         (and (validC h1 r) (= (viewC h1 r) (viewC h0 r))))
     :pattern ((nframeX h0 h1 na0 x) (validC h1 r)))))
; indep(c,x): rewriting node x cannot change the view of node c — x has no
; incoming pointer, or c lies below x in a heap closed at x, or c has no
; in-memory children.
(define-fun indep ((h RegN) (inp (Array Int Bool)) (c Int) (x Int)) Bool
  (and (not (= c x))
       (or (not (select inp x))
           (and (< c x) (closed h x))
           (and (= (iavl_Node_leftNode (select (RegN_iavl_Node h) c)) 0) (= (iavl_Node_rightNode (select (RegN_iavl_Node h) c)) 0)))))
;@specfn indep N ghost:inptr : Int Int -> Bool
; keyed rotations: the rotation of the node (k, l, r)
(define-fun-opaque rotRk ((k Cnt) (l T) (r T)) T (mk (i_key l) (i_left l) (mk k (i_right l) r)))
(define-fun-opaque rotLk ((k Cnt) (l T) (r T)) T (mk (i_key r) (mk k l (i_left r)) (i_right r)))
;@specfn rotRk : Cnt T T -> T
;@specfn rotLk : Cnt T T -> T
; balk: bal over the parts of a node whose stored height/size are being recomputed
(define-fun-opaque balk ((k Cnt) (l T) (r T)) T
  (ite (> (- (hgt l) (hgt r)) 1)
       (ite (>= (balf l) 0) (rotRk k l r) (rotRk k (rotL l) r))
  (ite (< (- (hgt l) (hgt r)) (- 1))
       (ite (<= (balf r) 0) (rotLk k l r) (rotLk k l (rotR r)))
       (mk k l r))))
;@specfn balk : Cnt T T -> T

; tview: the tree held by a root pointer (nil = empty tree)
(define-fun tview ((h RegN) (root Int)) T (ite (= root 0) TNil (view h root)))
;@specfn tview N : Int -> T
(define-fun noCnt () Cnt (mkCnt 0.0 0))
;@const noCnt Cnt

; (7) rebalancing keeps the size, never increases the height, and yields a
;     well-formed inner node (lemma bal_bounds in avl.lemmas; bal is opaque
;     elsewhere)
(assert (forall ((t T)) (! (=> (and ((_ is Inner) t) (wfT t))
    (and (= (siz (bal t)) (siz t)) (<= (hgt (bal t)) (hgt t)) (wfT (bal t)) ((_ is Inner) (bal t))))
  :pattern ((bal t)))))
; dbtree(v): the committed tree of version v as stored (persistence boundary);
; isProofFor(p, t, k): p is the ICS-23 proof object the library builds for key k in tree t
(declare-fun dbtree (Int) T)
;@specfn dbtree : Int -> T
(declare-fun isProofFor (Int T Real) Bool)
;@specfn isProofFor : Int T Real -> Bool

; ---- the persisted fast index of a nodeDB (ghost): presence, version last updated, value content, per key order
;@ghost fihas (Array Int (Array Real Bool))
;@ghost fiver (Array Int (Array Real Int))
;@ghost fival (Array Int (Array Real Cnt))

; ---- search-tree order and iteration ranges (C08)
; mink/maxk: key of the leftmost / rightmost leaf; under bstT these are the least / greatest key
(define-fun-rec mink ((t T)) Real
  (ite ((_ is Inner) t) (mink (i_left t)) (ite ((_ is Leaf) t) (c_ord (l_key t)) 0.0)))
(define-fun-rec maxk ((t T)) Real
  (ite ((_ is Inner) t) (maxk (i_right t)) (ite ((_ is Leaf) t) (c_ord (l_key t)) 0.0)))
;@specfn mink : T -> Real
;@specfn maxk : T -> Real
; bstT: every inner key separates its subtrees (left keys < key <= right keys)
(define-fun-rec bstT ((t T)) Bool
  (ite ((_ is Inner) t)
       (and (bstT (i_left t)) (bstT (i_right t))
            (< (maxk (i_left t)) (c_ord (i_key t))) (<= (c_ord (i_key t)) (mink (i_right t))))
       true))
;@specfn bstT : T -> Bool
; inR: k lies in the iteration domain [lo, hi) (hi included when incl); absent bounds are open
(define-fun inR ((k Real) (hasLo Bool) (lo Real) (hasHi Bool) (hi Real) (incl Bool)) Bool
  (and (or (not hasLo) (<= lo k)) (or (not hasHi) (< k hi) (and incl (= k hi)))))
;@specfn inR : Real Bool Real Bool Real Bool -> Bool

; ---- pruning writes (ghost): number of deletes issued to the pruning batch, and the key of the last one
;@ghost nprunes Int
;@ghost lastpruned Slice

; a write that only initialises a fresh byte row (make, append's new backing array, string conversion)
; leaves every existing node, node key and byte row as it was
;@allocfact BM nframe N
; outcome flags of the two assumed persistence boundaries used by versioned reads (ghost):
; set by every call of GetFastNode / GetImmutable to "the call returned an error"
;@ghost fnfail Bool
;@ghost immfail Bool

; avlT: every inner node's children differ in height by at most one (C11)
(define-fun-rec avlT ((t T)) Bool
  (ite ((_ is Inner) t)
       (and (avlT (i_left t)) (avlT (i_right t)) (<= (- 1) (balf t)) (<= (balf t) 1))
       true))
;@specfn avlT : T -> Bool
; fib: Fibonacci numbers (fib 0 = 0, fib 1 = 1); an AVL tree of height h has at least fib(h+2) leaves
(define-fun-rec fib ((n Int)) Int (ite (<= n 0) 0 (ite (= n 1) 1 (+ (fib (- n 1)) (fib (- n 2))))))
;@specfn fib : Int -> Int
; outcome of the last call of nodeDB.shouldForceFastStorageUpgrade (ghost; its label parsing — strings.Split, strconv — is outside the translated subset)
;@ghost forceflag Bool
; call counters (ghost): number of calls of extractStateChanges / of nodeDB.SaveNode so far
;@ghost nextracts Int
;@ghost nsaves Int
; ---- decimal labels (C07): the text of a string is named by (ord, len); splitting and decimal
; rendering are uninterpreted, constrained only by what the decision needs
; splitcnt/splitord/splitlen: number of pieces of strings.Split(s, sep) and the text of piece i
(declare-fun splitcnt (Int Int Int Int) Int)
;@specfn splitcnt : Int Int Int Int -> Int
(declare-fun splitord (Int Int Int Int Int) Int)
;@specfn splitord : Int Int Int Int Int -> Int
(declare-fun splitlen (Int Int Int Int Int) Int)
;@specfn splitlen : Int Int Int Int Int -> Int
; itoaord/itoalen: the text of strconv.Itoa(i); distinct integers have distinct texts
(declare-fun itoaord (Int) Int)
;@specfn itoaord : Int -> Int
(declare-fun itoalen (Int) Int)
;@specfn itoalen : Int -> Int
(assert (forall ((i Int) (j Int)) (! (=> (and (= (itoaord i) (itoaord j)) (= (itoalen i) (itoalen j))) (= i j)) :pattern ((itoaord i) (itoaord j)))))
; labelstale(lo, ll, dash, latest): the label (text lo/ll) has the form <format>-<version> and its
; version text is not the decimal text of latest
(define-fun labelstale ((lo Int) (ll Int) (dash Int) (latest Int)) Bool (and (= (splitcnt lo ll dash 1) 2) (not (and (= (splitord lo ll dash 1 1) (itoaord latest)) (= (splitlen lo ll dash 1 1) (itoalen latest))))))
;@specfn labelstale : Int Int Int Int -> Bool
