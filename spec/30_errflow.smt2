; errflow.smt2 — ghost state of the error-flow layer (property C17).
; fault: some storage call has failed since the beginning of the current
; operation.  parked[o]: object o (an iterator) has recorded such a failure
; and will report it through its Error()/err channel.
;@ghost fault Bool
;@ghost parked (Array Int Bool)
; parked[o] mirrors "o.err != nil" for the iterator types of the library:
; every store to the err field updates it, a fresh iterator has it false.
;@onstore github.com/cosmos/iavl.Iterator.err ghostflag parked
;@onstore github.com/cosmos/iavl.FastIterator.err ghostflag parked
;@onstore github.com/cosmos/iavl.UnsavedFastIterator.err ghostflag parked
;@onstore github.com/cosmos/iavl.NodeIterator.err ghostflag parked
; held[m]: the current goroutine holds mutex m (write lock); rheld[m]: it holds a read lock.
; Unlocking a mutex that is not held is a fatal runtime error, not an error result.
;@ghost held (Array Int Bool)
;@ghost rheld (Array Int Bool)
