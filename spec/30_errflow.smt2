; errflow.smt2 — ghost state of the error-flow layer (property C17).
; fault: some storage call has failed since the beginning of the current
; operation.  parked[o]: object o (an iterator) has recorded such a failure
; and will report it through its Error()/err channel.
;@ghost fault Bool
;@ghost parked (Array Int Bool)
; parked[o] mirrors "o.err != nil" for the iterator types of the library:
; every store to the err field updates it, a fresh iterator has it false.
;@onstore github.com/cosmos/iavl.Iterator.err ghostflag parked
;@onstore github.com/cosmos/iavl.FastIterator.err ghostflag parked
;@onstore github.com/cosmos/iavl.UnsavedFastIterator.err ghostflag parked
;@onstore github.com/cosmos/iavl.NodeIterator.err ghostflag parked
