; codec.smt2 — pinned wire format of cosmos/iavl, written from docs/node/node.md
; and the protobuf/LEB128 definition, not from the Go code.
;
; A Stream is the sequence of bytes written to an io.Writer so far (snoc list).
(declare-datatypes ((Stream 0)) (((SNil) (Snoc (st_init Stream) (st_last Int)))))
;@ghost wstream (Array Int Stream)
;@specfn Snoc : Stream Int -> Stream
;@const SNil Stream

; LEB128 (unsigned varint): 7 payload bits per byte, least significant group
; first, high bit set on every byte except the last.
(define-fun-rec appU ((s Stream) (u Int)) Stream
  (ite (< u 128) (Snoc s u) (appU (Snoc s (+ 128 (mod u 128))) (div u 128))))
;@specfn appU : Stream Int -> Stream
; zig-zag mapping of signed integers (protobuf sint64)
(define-fun zigzag ((i Int)) Int (ite (>= i 0) (* 2 i) (- (* (- 2) i) 1)))
;@specfn zigzag : Int -> Int
(define-fun appV ((s Stream) (i Int)) Stream (appU s (zigzag i)))
;@specfn appV : Stream Int -> Stream
; number of bytes of the LEB128 encoding
(define-fun-rec uvlen ((u Int)) Int (ite (< u 128) 1 (+ 1 (uvlen (div u 128)))))
;@specfn uvlen : Int -> Int
(define-fun vlen ((i Int)) Int (uvlen (zigzag i)))
;@specfn vlen : Int -> Int

; appending the content of a byte slice, identified by (content order, length)
(declare-fun appRaw (Stream Real Int) Stream)
;@specfn appRaw : Stream Real Int -> Stream
; length-prefixed bytes: uvarint(len) ++ content
(define-fun appB ((s Stream) (o Real) (n Int)) Stream (appRaw (appU s n) o n))
;@specfn appB : Stream Real Int -> Stream

; "the content (o,n) is the LEB128 encoding of u": what encoding/binary.PutUvarint
; is assumed to produce; appending such a content equals appU.
(declare-fun isUvarintContent (Real Int Int) Bool)
;@specfn isUvarintContent : Real Int Int -> Bool
(assert (forall ((s Stream) (o Real) (n Int) (u Int))
  (! (=> (isUvarintContent o n u) (and (= (appRaw s o n) (appU s u)) (= n (uvlen u))))
     :pattern ((appRaw s o n) (isUvarintContent o n u)))))
(assert (forall ((o Real) (n Int) (u Int))
  (! (=> (isUvarintContent o n u) (= n (uvlen u))) :pattern ((isUvarintContent o n u)))))

; decoding side: value and consumed length of the uvarint at the start of a
; content; uninterpreted here, tied to the encoder by the round-trip axiom.
(declare-fun uvDecOk ((Array Int Int) Int Int) Bool)   ; row off len: a complete uvarint that fits 64 bits starts here
(declare-fun uvDecVal ((Array Int Int) Int Int) Int)
(declare-fun uvDecLen ((Array Int Int) Int Int) Int)
;@specfn uvDecOk : (Array Int Int) Int Int -> Bool
;@specfn uvDecVal : (Array Int Int) Int Int -> Int
;@specfn uvDecLen : (Array Int Int) Int Int -> Int
(define-fun unzigzag ((u Int)) Int (ite (= (mod u 2) 0) (div u 2) (- (- (div u 2)) 1)))
;@specfn unzigzag : Int -> Int
; ghost contents of sync.Map objects (keys: content order of the string key)
;@ghost smhas (Array Int (Array Real Bool))
;@ghost smval (Array Int (Array Real Int))
; big-endian fixed-width integers: a function of the bytes they occupy
(declare-fun f8 (Int Int Int Int Int Int Int Int) Int)
(declare-fun f4 (Int Int Int Int) Int)
; ranges of the fixed-width values (they are 64- and 32-bit quantities)
(assert (forall ((a Int) (b Int) (c Int) (d Int) (e Int) (f Int) (g Int) (h Int)) (! (and (<= 0 (f8 a b c d e f g h)) (< (f8 a b c d e f g h) 18446744073709551616)) :pattern ((f8 a b c d e f g h)))))
(assert (forall ((a Int) (b Int) (c Int) (d Int)) (! (and (<= 0 (f4 a b c d)) (< (f4 a b c d) 4294967296)) :pattern ((f4 a b c d)))))
(define-fun be64 ((r (Array Int Int)) (o Int)) Int
  (f8 (select r o) (select r (+ o 1)) (select r (+ o 2)) (select r (+ o 3)) (select r (+ o 4)) (select r (+ o 5)) (select r (+ o 6)) (select r (+ o 7))))
(define-fun be32 ((r (Array Int Int)) (o Int)) Int
  (f4 (select r o) (select r (+ o 1)) (select r (+ o 2)) (select r (+ o 3))))
;@specfn be64 : (Array Int Int) Int -> Int
;@specfn be32 : (Array Int Int) Int -> Int
; a freshly allocated sync.Map is empty
;@onalloc sync.Map ghostempty smhas
(define-fun emptyKeys () (Array Real Bool) ((as const (Array Real Bool)) false))
;@const emptyKeys (Array Real Bool)
; SHA-256 is uninterpreted: the digest (as a 32-byte content, identified by its
; content order) of a byte stream.  No property of the hash function is assumed.
(declare-fun shaS (Stream) Real)
;@specfn shaS : Stream -> Real
;@specfn ordRow : (Array Int Int) Int Int -> Real
;@specfn appRawS : Stream Real Int -> Stream
(define-fun appRawS ((s Stream) (o Real) (n Int)) Stream (appRaw s o n))
; node cache (cache.Cache): cachemap[c][k] = the node object held under key
; content k, or 0.  ckeyOf(n): content order of the key node n is cached under.
;@ghost cachemap (Array Int (Array Real Int))
(declare-fun ckeyOf (Int) Real)
;@specfn ckeyOf : Int -> Real
; iterator cursors (ghost): validity and current key/value content order
;@ghost itvalid (Array Int Bool)
;@ghost itkey (Array Int Real)
;@ghost itval (Array Int Real)
; the byte slice a cursor hands out as its current key (ghost; stable until the cursor moves)
;@ghost itkeyS (Array Int Slice)
