package main

// calls.go — calls: contracts, inlining, builtins, frame axioms.

import (
	"fmt"
	"regexp"
	"os"
	"go/token"
	"go/types"
	"sort"
	"strconv"
	"strings"

	"golang.org/x/tools/go/ssa"
)

const maxInlineDepth = 4

func (x *Exec) execCall(fr *frame, v ssa.Value, cc *ssa.CallCommon, st *State, reach string, pos token.Pos) (sval, *State) {
	var args []sval
	for _, a := range cc.Args {
		args = append(args, x.val(fr, a, st))
	}
	fnv := x.val(fr, cc.Value, st)
	rv, nst := x.callWithArgs(fr, cc, fnv, args, st, reach, pos, v)
	if fr.top && len(x.accWant) > 0 {
		// allok("<target>[@k]", i): conjunction of the boolean result i over every such call so far
		if name := callsiteName(cc); name != "" {
			for tg, a := range x.accWant {
				if x.siteMatch(fr.fn, tg, name, pos) {
					v := rv
					if cc.Signature().Results().Len() > 1 {
						if a.idx >= len(rv.tup) {
							continue
						}
						v = rv.tup[a.idx]
					}
					nst.set(a.comp, x.define("allok", "Bool", "(and "+nst.get(a.comp)+" "+v.t+")"))
				}
			}
		}
	}
	if fr.top && len(x.resultWant) > 0 {
		if name := callsiteName(cc); name != "" {
			for tg := range x.resultWant {
				if x.siteMatch(fr.fn, tg, name, pos) {
					x.callResults[tg] = capturedCall{rv: rv, sig: cc.Signature()}
				}
			}
		}
	}
	return rv, nst
}

// findCallSig: signature of the call of the function under contract that matches target[@k].
func (x *Exec) findCallSig(target string) *types.Signature {
	for _, b := range x.fn.Blocks {
		for _, ins := range b.Instrs {
			ci, ok := ins.(ssa.CallInstruction)
			if !ok {
				continue
			}
			if x.siteMatch(x.fn, target, callsiteName(ci.Common()), ins.Pos()) {
				return ci.Common().Signature()
			}
		}
	}
	return nil
}

type accSpec struct {
	idx  int
	comp string
}

type capturedCall struct {
	rv  sval
	sig *types.Signature
}

// siteMatch: does the call (callee name, position) match target[@k]?  k is the ordinal, in
// source order, among the calls of fn that match target.
func (x *Exec) siteMatch(fn *ssa.Function, target, name string, pos token.Pos) bool {
	want := 0
	if i := strings.LastIndex(target, "@"); i > 0 {
		fmt.Sscanf(target[i+1:], "%d", &want)
		target = target[:i]
	}
	if !callsiteMatch(target, name) {
		return false
	}
	if want == 0 {
		return true
	}
	var sites []token.Pos
	for _, b := range fn.Blocks {
		for _, ins := range b.Instrs {
			if ci, ok := ins.(ssa.CallInstruction); ok && callsiteMatch(target, callsiteName(ci.Common())) {
				sites = append(sites, ins.Pos())
			}
		}
	}
	sort.Slice(sites, func(i, j int) bool { return sites[i] < sites[j] })
	for i, p := range sites {
		if p == pos {
			return i+1 == want
		}
	}
	return false
}

// callWithArgs performs a call; args exclude the receiver for invoke-mode
// calls (fnv is then the receiver).
func (x *Exec) callWithArgs(fr *frame, cc *ssa.CallCommon, fnv sval, args []sval, st *State, reach string, pos token.Pos, resultOf ssa.Value) (sval, *State) {
	sig := cc.Signature()
	// builtin
	if b, ok := cc.Value.(*ssa.Builtin); ok {
		return x.execBuiltin(fr, b, cc, args, st, reach, pos)
	}
	if fr.top && x.ct != nil && len(x.ct.Callsites) > 0 && !x.errflow {
		x.checkCallsites(fr, cc, args, st, reach, pos, resultOf)
	}
	if fr.top && len(x.callCount) > 0 {
		if name := callsiteName(cc); name != "" {
			for target, comp := range x.callCount {
				if x.siteMatch(fr.fn, target, name, pos) {
					st.set(comp, x.define("calls", "Int", "(+ "+st.get(comp)+" 1)"))
				}
			}
		}
	}
	if fr.top && x.ct != nil && x.ct.OpaqueCalls && !x.errflow {
		// functions of the repository (and unknown function values) are opaque; library functions
		// keep their assumed contracts (errors.New / fmt.Errorf return a non-nil error)
		sc := cc.StaticCallee()
		if cc.IsInvoke() || sc == nil || inRepoFn(sc) {
			nst := x.havocForWrites(st, &WriteSet{Top: true}, "opaque call")
			return x.freshResults(sig, nst, reach), nst
		}
	}
	var key string
	var callee *ssa.Function
	var allArgs []sval
	var argTypes []types.Type
	if cc.IsInvoke() {
		key = cc.Method.FullName()
		// prefer the static type of the receiver: methods of aliased anonymous
		// interfaces (corestore.KVStore, Batch, Iterator) print as "(interface).M"
		k2 := "(" + cc.Value.Type().String() + ")." + cc.Method.Name()
		if x.errflow {
			if _, ok := x.eng.errflow[k2]; ok {
				key = k2
			}
		} else if _, ok := x.eng.contracts[k2]; ok {
			key = k2
		}
		allArgs = append([]sval{fnv}, args...)
		argTypes = append(argTypes, cc.Value.Type())
		for i := 0; i < sig.Params().Len(); i++ {
			argTypes = append(argTypes, sig.Params().At(i).Type())
		}
		x.oblige("safety", "nil:invoke:"+cc.Method.Name(), reach, "(not (= "+fnv.t+" 0))", "method call on nil interface", pos)
	} else {
		if f := cc.StaticCallee(); f != nil {
			callee = f
		} else if fnv.clo != nil {
			callee = fnv.clo.fn
		}
		if callee == nil {
			// "var f func(..); f = func(..) { .. f() .. }": the cell is stored once, with a closure
			callee = x.eng.resolveFuncValue(cc.Value)
		}
		if callee == nil {
			x.note("call of unknown function value in " + fr.fn.String())
			x.curTaint = true
			if x.errflow {
				// a callback: like any function of the library it may hit a storage
				// failure, which it then reports through its error result (closures
				// are checked against that generic contract themselves)
				return x.genericErrflowCall(sig, st, reach)
			}
			nst := x.havocForWrites(st, &WriteSet{Top: true}, "dynamic call")
			return x.freshResults(sig, nst, reach), nst
		}
		key = callee.String()
		allArgs = args
		if callee.Signature.Recv() != nil && len(callee.Params) == len(args) {
			// receiver already part of args
		}
		for _, p := range callee.Params {
			argTypes = append(argTypes, p.Type())
		}
	}
	if x.errflow {
		return x.errflowCall(fr, cc, key, callee, fnv, allArgs, argTypes, sig, st, reach, pos)
	}
	ct := x.eng.contracts[key]
	if ct == nil && callee != nil && callee.Synthetic != "" {
		// wrapper / bound method / promoted method: inline
	}
	if ct != nil && ct.Summary {
		ct = nil
		if callee != nil && len(callee.Blocks) > 0 {
			ws := x.eng.writeSet(callee)
			if !ws.Top {
				nst := x.havocForWrites(st, ws, "summary of "+key)
				x.inferredFieldFrames(ws, st, nst, reach)
				return x.freshResults(sig, nst, reach), nst
			}
		}
		x.note("summary callee with unbounded write set: " + key)
		x.curTaint = true
		nst := x.havocForWrites(st, &WriteSet{Top: true}, "summary")
		return x.freshResults(sig, nst, reach), nst
	}
	if ct != nil && !ct.Inline {
		return x.applyContract(fr, ct, callee, allArgs, argTypes, sig, st, reach, pos, key, fnv)
	}
	maxD, maxB := maxInlineDepth, 60
	if x.sweep {
		maxD, maxB = 2, 12 // zero-annotation sweep: only small helpers are inlined
	}
	if callee != nil && len(callee.Blocks) > 0 && len(callee.Blocks) <= maxB && fr.depth < maxD && !x.onStack(callee) && inRepoFn(callee) {
		return x.inline(fr, callee, fnv, allArgs, st, reach)
	}
	// no contract and not inlinable
	why := "call without contract: " + key
	if callee != nil && len(callee.Blocks) > 0 {
		why = "call not inlined (depth/recursion), no contract: " + key
	}
	x.note(why)
	if callee != nil && !inRepoFn(callee) {
		// external function without contract: writes only memory reachable from its arguments
		ws := &WriteSet{Comps: map[string]bool{}}
		x.eng.externArgWrites(ws, cc)
		if !ws.Top {
			nst := x.havocForWrites(st, ws, why)
			return x.freshResults(sig, nst, reach), nst
		}
	}
	if callee != nil && len(callee.Blocks) > 0 && inRepoFn(callee) {
		// the callee's transitive write set (computed from its code) bounds its effect
		ws := x.eng.writeSet(callee)
		if !ws.Top {
			nst := x.havocForWrites(st, ws, why)
			x.inferredFieldFrames(ws, st, nst, reach)
			return x.freshResults(sig, nst, reach), nst
		}
	}
	x.curTaint = true
	nst := x.havocForWrites(st, &WriteSet{Top: true}, why)
	return x.freshResults(sig, nst, reach), nst
}

// errflowCall: calls in error-flow mode.
func (x *Exec) errflowCall(fr *frame, cc *ssa.CallCommon, key string, callee *ssa.Function, fnv sval, args []sval, argTypes []types.Type, sig *types.Signature, st *State, reach string, pos token.Pos) (sval, *State) {
	if ct := x.eng.errflow[key]; ct != nil {
		mod := map[string]bool{}
		for _, m := range ct.Modifies {
			g := strings.TrimSpace(m)
			if i := strings.Index(g, "["); i > 0 {
				g = g[:i]
			}
			mod[g] = true
		}
		mod["parked"] = true // fresh iterators may be created; old entries are framed below
		pre := x.contractEnv(ct, callee, args, argTypes, nil, nil, st, nil, fnv)
		pre.old = st
		old := st
		// preconditions over the ghost state (e.g. Unlock needs the lock to be held)
		short := shortKey(key)
		x.nameCount["call:"+short]++
		callNo := x.nameCount["call:"+short]
		for i, r := range ct.Requires {
			t, err := pre.trClause(r.Text)
			if err != nil {
				x.eng.specError(r, err)
				continue
			}
			lbl := r.Label
			if lbl == "" {
				lbl = fmt.Sprint(i + 1)
			}
			x.oblige("pre", fmt.Sprintf("%s@%d:%s", short, callNo, lbl), reach, t, "precondition of "+short+": "+r.Text, pos)
		}
		nst := x.havocHeapKeepGhosts(st, mod)
		// frames of the modified ghosts (locations given in the modifies clause)
		ws := &WriteSet{Comps: map[string]bool{}}
		for g := range mod {
			ws.add("G_" + g)
		}
		x.frameFacts(ct, pre, ws, old, nst, reach, false, "")
		res := x.freshResults(sig, nst, reach)
		var rs []sval
		var rts []types.Type
		if sig.Results().Len() == 1 {
			rs = []sval{res}
		} else {
			rs = res.tup
		}
		for i := 0; i < sig.Results().Len(); i++ {
			rts = append(rts, sig.Results().At(i).Type())
		}
		post := x.contractEnv(ct, callee, args, argTypes, rs, rts, nst, old, fnv)
		for _, e := range ct.Ensures {
			if e.Internal {
				continue
			}
			t, err := post.trClause(e.Text)
			if err != nil {
				x.eng.specError(e, err)
				continue
			}
			x.assume(reach, t)
		}
		return res, nst
	}
	inRepo := callee != nil && len(callee.Blocks) > 0 && callee.Pkg != nil && strings.HasPrefix(callee.Pkg.Pkg.Path(), "github.com/cosmos/iavl")
	if callee != nil && callee.Parent() != nil && len(callee.Blocks) > 0 {
		inRepo = true // closure of a repository function
	}
	if !inRepo {
		// external or unknown code: no storage access of its own
		nst := x.havocHeapKeepGhosts(st, nil)
		res := x.freshResults(sig, nst, reach)
		switch key {
		case "errors.New", "fmt.Errorf", "errors.Join":
			x.assume(reach, "(not (= "+res.t+" 0))")
		}
		return res, nst
	}
	// small helpers without calls are inlined; others use the generic contract
	if fr.depth < 2 && !x.onStack(callee) && len(callee.Blocks) <= 3 && callee.Synthetic == "" && !hasLoop(callee) {
		return x.inline(fr, callee, fnv, args, st, reach)
	}
	if callee.Synthetic != "" && fr.depth < 3 && !x.onStack(callee) {
		return x.inline(fr, callee, fnv, args, st, reach) // wrappers / bound methods
	}
	return x.genericErrflowCall(sig, st, reach)
}

// genericErrflowCall: the generic error-flow contract at a call site.
func (x *Exec) genericErrflowCall(sig *types.Signature, st *State, reach string) (sval, *State) {
	nst := x.havocHeapKeepGhosts(st, map[string]bool{"fault": true, "parked": true})
	res := x.freshResults(sig, nst, reach)
	oldF, newF := st.get("G_fault"), nst.get("G_fault")
	// the generic contract: parked changes only at objects allocated by the callee
	x.assume(reach, "(forall ((r! Int)) (! (=> (and (< 0 r!) (< r! "+st.na+")) (= (select "+nst.get("G_parked")+" r!) (select "+st.get("G_parked")+" r!))) :pattern ((select "+nst.get("G_parked")+" r!))))")
	x.assume(reach, "(=> "+oldF+" "+newF+")")
	errIdx := -1
	for i := 0; i < sig.Results().Len(); i++ {
		if types.Identical(sig.Results().At(i).Type(), types.Universe.Lookup("error").Type()) {
			errIdx = i
		}
	}
	if errIdx >= 0 {
		et := res.t
		if sig.Results().Len() > 1 {
			et = res.tup[errIdx].t
		}
		x.assume(reach, "(=> (and (not "+oldF+") "+newF+") (not (= "+et+" 0)))")
	} else {
		x.assume(reach, "(= "+newF+" "+oldF+")")
	}
	return res, nst
}

func inRepoFn(f *ssa.Function) bool {
	for g := f; g != nil; g = g.Parent() {
		if g.Pkg != nil {
			return strings.HasPrefix(g.Pkg.Pkg.Path(), "github.com/cosmos/iavl")
		}
	}
	return false
}

func hasLoop(fn *ssa.Function) bool {
	for _, b := range fn.Blocks {
		for _, s := range b.Succs {
			if s.Dominates(b) {
				return true
			}
		}
	}
	return false
}

func (x *Exec) onStack(f *ssa.Function) bool {
	for _, g := range x.inlineStk {
		if g == f {
			return true
		}
	}
	return false
}

func (x *Exec) freshResults(sig *types.Signature, st *State, reach string) sval {
	res := sig.Results()
	mk := func(t types.Type) sval {
		s := x.freshConst("res", x.so.sortOf(t))
		for _, f := range x.so.typeFacts(s, t, st.na) {
			x.assume(reach, f)
		}
		x.markNamed(s, t)
		return sval{t: s}
	}
	switch res.Len() {
	case 0:
		return sval{t: "0"}
	case 1:
		return mk(res.At(0).Type())
	}
	var tup []sval
	for i := 0; i < res.Len(); i++ {
		tup = append(tup, mk(res.At(i).Type()))
	}
	return sval{tup: tup}
}

func (x *Exec) inline(fr *frame, callee *ssa.Function, fnv sval, args []sval, st *State, reach string) (sval, *State) {
	x.counter++
	nfr := &frame{fn: callee, vals: map[ssa.Value]sval{}, prefix: fmt.Sprintf("%si%d_", fr.prefix, x.counter), depth: fr.depth + 1, parent: fr}
	for i, p := range callee.Params {
		if i < len(args) {
			nfr.vals[p] = args[i]
		}
	}
	if fnv.clo != nil {
		for i, fv := range callee.FreeVars {
			if i < len(fnv.clo.bindings) {
				nfr.vals[fv] = fnv.clo.bindings[i]
			}
		}
	}
	x.inlineStk = append(x.inlineStk, callee)
	rets, nst, rreach := x.execBody(nfr, st, reach)
	x.inlineStk = x.inlineStk[:len(x.inlineStk)-1]
	_ = rreach
	switch len(rets) {
	case 0:
		return sval{t: "0"}, nst
	case 1:
		return rets[0], nst
	}
	return sval{tup: rets}, nst
}

// contractEnv binds parameter and result names of a contract.
func (x *Exec) contractEnv(ct *Contract, callee *ssa.Function, args []sval, argTypes []types.Type, results []sval, resTypes []types.Type, st, old *State, fnv sval) *Env {
	env := &Env{x: x, vars: map[string]TVal{}, st: st, old: old, bound: map[string]string{}}
	if callee != nil {
		if callee.Pkg != nil {
			env.pkg = callee.Pkg.Pkg
		} else if callee.Parent() != nil && callee.Parent().Pkg != nil {
			env.pkg = callee.Parent().Pkg.Pkg
		}
	}
	if env.pkg == nil {
		env.pkg = x.eng.pkgOfKey(ct.Key)
	}
	names := ct.Params
	// closures: free variables first
	k := 0
	if callee != nil && len(callee.FreeVars) > 0 && fnv.clo != nil {
		for i, fv := range callee.FreeVars {
			if i < len(fnv.clo.bindings) {
				b := fnv.clo.bindings[i]
				env.vars[fv.Name()] = TVal{T: b.t, Sort: x.so.sortOf(fv.Type()), Ty: fv.Type()}
			}
		}
	}
	if callee != nil && len(callee.FreeVars) > 0 && fnv.clo == nil && callee == x.fn {
		// self-recursion of the closure under verification: same captured cells
		for _, fv := range callee.FreeVars {
			if tv, ok := x.paramEnv[fv.Name()]; ok {
				env.vars[fv.Name()] = tv
			}
		}
	}
	for i, a := range args {
		if k+i < len(names) {
			var ty types.Type
			if i < len(argTypes) {
				ty = argTypes[i]
			}
			srt := "Int"
			if ty != nil {
				srt = x.so.sortOf(ty)
			}
			env.vars[names[k+i]] = TVal{T: a.t, Sort: srt, Ty: ty}
		}
	}
	for i, r := range results {
		if i < len(ct.Results) {
			var ty types.Type
			if i < len(resTypes) {
				ty = resTypes[i]
			}
			srt := "Int"
			if ty != nil {
				srt = x.so.sortOf(ty)
			}
			env.vars[ct.Results[i]] = TVal{T: r.t, Sort: srt, Ty: ty}
		}
	}
	if len(results) == 1 {
		var ty types.Type
		if len(resTypes) > 0 {
			ty = resTypes[0]
		}
		srt := "Int"
		if ty != nil {
			srt = x.so.sortOf(ty)
		}
		env.vars["result"] = TVal{T: results[0].t, Sort: srt, Ty: ty}
	}
	return env
}

func (x *Exec) bindLets(ct *Contract, env *Env) {
	for _, l := range ct.Lets {
		pre := *env
		if env.old != nil {
			pre.st = env.old
		}
		tv, err := pre.trTerm(l.Text)
		if err != nil {
			x.eng.specError(l, err)
			continue
		}
		env.vars[l.Label] = tv
	}
}

func (x *Exec) applyContract(fr *frame, ct *Contract, callee *ssa.Function, args []sval, argTypes []types.Type, sig *types.Signature, st *State, reach string, pos token.Pos, key string, fnv sval) (sval, *State) {
	short := shortKey(key)
	x.nameCount["call:"+short]++
	callNo := x.nameCount["call:"+short]
	// 1. preconditions
	pre := x.contractEnv(ct, callee, args, argTypes, nil, nil, st, nil, fnv)
	pre.old = st
	x.bindLets(ct, pre)
	for i, r := range ct.Requires {
		t, err := pre.trClause(r.Text)
		if err != nil {
			x.eng.specError(r, err)
			continue
		}
		lab := r.Label
		if lab == "" {
			lab = strconv.Itoa(i + 1)
		}
		x.oblige("pre", fmt.Sprintf("%s@%d:%s", short, callNo, lab), reach, t, "precondition of "+short+": "+r.Text, pos)
	}
	// termination of self-recursion
	if callee != nil && callee == x.fn && ct.Decreases != nil && x.ct == ct {
		tv, err := pre.trTerm(ct.Decreases.Text)
		top := x.topEnv
		if err == nil && top != nil {
			ov, err2 := top.trTerm(ct.Decreases.Text)
			if err2 == nil {
				x.oblige("decr", fmt.Sprintf("%s@%d", short, callNo), reach, "(and (<= 0 "+ov.T+") (< "+tv.T+" "+ov.T+"))", "recursion measure decreases: "+ct.Decreases.Text, pos)
			}
		}
	}
	// 2. havoc what the callee may write
	var ws *WriteSet
	inferredOnly := false
	if ct.Havoc {
		ws = &WriteSet{Top: true}
	} else if hasStar(ct.Modifies) {
		ws = &WriteSet{Top: true}
		if callee != nil && len(callee.Blocks) > 0 && !ct.Assumed && inRepoFn(callee) {
			// no frame is promised, but the code bounds what can be written
			if iw := x.eng.writeSet(callee); !iw.Top {
				ws = iw
				inferredOnly = true
			}
		}
	} else if callee != nil && len(callee.Blocks) > 0 && !ct.Assumed {
		ws = x.eng.writeSet(callee)
		ws = ws.union(x.eng.contractWrites(x, ct))
	} else {
		ws = x.eng.contractWrites(x, ct)
	}
	if ws.Top {
		x.note("callee " + short + " has unbounded write set")
		x.curTaint = true
	}
	old := st
	nst := x.havocForWrites(st, ws, "call "+short)
	if ct.Pure && len(ws.Comps) == 0 && !ws.Top {
		nst = st.clone()
	}
	// 3. frame axioms
	if inferredOnly {
		x.inferredFieldFrames(ws, old, nst, reach)
	} else if !ws.Top {
		x.frameFacts(ct, pre, ws, old, nst, reach, false, "")
	}
	// call counters: the ghost is one more than before the call, whatever else the callee does
	for _, g := range ct.Counts {
		if _, ok := x.eng.ghosts[g]; !ok {
			x.eng.specErrs = append(x.eng.specErrs, fmt.Sprintf("%s:%d: counts: unknown ghost %s", ct.File, ct.Line, g))
			continue
		}
		c := "G_" + g
		if _, ok := x.so.comps[c]; !ok {
			x.so.addComp(c, x.eng.ghosts[g])
		}
		o := old.get(c)
		n := x.freshConst(c+"_cnt", x.so.comps[c])
		nst.m[c] = n
		x.assume(reach, "(= "+n+" (+ "+o+" 1))")
	}
	// 4. results
	res := x.freshResults(sig, nst, reach)
	var rs []sval
	var rts []types.Type
	if sig.Results().Len() == 1 {
		rs = []sval{res}
	} else {
		rs = res.tup
	}
	for i := 0; i < sig.Results().Len(); i++ {
		rts = append(rts, sig.Results().At(i).Type())
	}
	post := x.contractEnv(ct, callee, args, argTypes, rs, rts, nst, old, fnv)
	x.bindLets(ct, post)
	for _, e := range ct.Ensures {
		if e.Internal {
			continue
		}
		t, err := post.trClause(e.Text)
		if err != nil {
			x.eng.specError(e, err)
			continue
		}
		x.assume(reach, t)
	}
	return res, nst
}

func hasStar(mods []string) bool {
	for _, m := range mods {
		if strings.TrimSpace(m) == "*" {
			return true
		}
	}
	return false
}

func shortKey(key string) string {
	key = strings.ReplaceAll(key, "github.com/cosmos/iavl/", "")
	key = strings.ReplaceAll(key, "github.com/cosmos/iavl.", "")
	return key
}

// ---------------------------------------------------------------- frames

// modLoc is a parsed modifies entry.
type modLoc struct {
	comp   string   // component
	obj    string   // object term ("" = any object)
	fields []string // accessor names allowed to change ("" slice = whole object)
	whole  bool     // whole component arbitrary
}

// parseModifies resolves the modifies clause against an environment
// (expressions evaluated in the pre-state).
func (x *Exec) parseModifies(ct *Contract, env *Env) []modLoc {
	var out []modLoc
	pre := *env
	if env.old != nil {
		pre.st = env.old
	}
	for _, m := range ct.Modifies {
		m = strings.TrimSpace(m)
		if m == "" || m == "*" {
			continue
		}
		// raw component: comp:NAME
		if strings.HasPrefix(m, "comp:") {
			out = append(out, modLoc{comp: strings.TrimPrefix(m, "comp:"), whole: true})
			continue
		}
		if m == "BM" || m == "BM[*]" {
			out = append(out, modLoc{comp: "BM", whole: true})
			continue
		}
		// ghost
		gname := m
		gidx := ""
		if i := strings.Index(m, "["); i > 0 && strings.HasSuffix(m, "]") {
			gname = m[:i]
			gidx = m[i+1 : len(m)-1]
		}
		if _, ok := x.eng.ghosts[gname]; ok {
			ml := modLoc{comp: "G_" + gname}
			if gidx == "" || gidx == "*" {
				ml.whole = true
			} else {
				tv, err := pre.trTerm(gidx)
				if err != nil {
					x.eng.specError(Clause{Text: m, File: ct.File, Line: ct.Line}, err)
					continue
				}
				ml.obj = tv.T
			}
			out = append(out, ml)
			continue
		}
		// Type.field[*]
		if strings.HasSuffix(m, "[*]") {
			body := strings.TrimSuffix(m, "[*]")
			if i := strings.LastIndex(body, "."); i > 0 {
				tn, fn := body[:i], body[i+1:]
				if t := x.eng.lookupType(tn, env.pkg); t != nil {
					si := x.so.structInfo(t)
					ml := modLoc{comp: x.so.structComp(t)}
					if fn == "*" {
						ml.whole = true
					} else {
						ml.fields = []string{si.Name + "_" + fn}
					}
					out = append(out, ml)
					continue
				}
			}
			// slice elements: s[*]
			tv, err := pre.trTerm(body)
			if err == nil && tv.Sort == "Slice" {
				var et types.Type = types.Typ[types.Uint8]
				if tv.Ty != nil {
					if sl, ok := tv.Ty.Underlying().(*types.Slice); ok {
						et = sl.Elem()
					}
				}
				out = append(out, modLoc{comp: x.so.elemComp(et), obj: "(s_base " + tv.T + ")"})
				continue
			}
			if err == nil && tv.Ty != nil {
				if p, ok := tv.Ty.Underlying().(*types.Pointer); ok {
					if a, ok := p.Elem().Underlying().(*types.Array); ok {
						out = append(out, modLoc{comp: x.so.elemComp(a.Elem()), obj: tv.T})
						continue
					}
				}
			}
			x.eng.specError(Clause{Text: m, File: ct.File, Line: ct.Line}, fmt.Errorf("cannot resolve modifies location"))
			continue
		}
		// x.f or x.* or *p
		if strings.HasPrefix(m, "*") {
			tv, err := pre.trTerm(m[1:])
			if err == nil && tv.Ty != nil {
				if p, ok := tv.Ty.Underlying().(*types.Pointer); ok {
					if _, isS := p.Elem().Underlying().(*types.Struct); isS {
						out = append(out, modLoc{comp: x.so.structComp(p.Elem()), obj: tv.T})
					} else {
						out = append(out, modLoc{comp: x.so.cellComp(p.Elem()), obj: tv.T})
					}
					continue
				}
			}
			x.eng.specError(Clause{Text: m, File: ct.File, Line: ct.Line}, fmt.Errorf("cannot resolve modifies location"))
			continue
		}
		i := strings.LastIndex(m, ".")
		if i < 0 {
			x.eng.specError(Clause{Text: m, File: ct.File, Line: ct.Line}, fmt.Errorf("cannot resolve modifies location"))
			continue
		}
		objE, fn := m[:i], m[i+1:]
		tv, err := pre.trTerm(objE)
		if err != nil || tv.Ty == nil {
			x.eng.specError(Clause{Text: m, File: ct.File, Line: ct.Line}, fmt.Errorf("cannot resolve modifies object %s: %v", objE, err))
			continue
		}
		p, ok := tv.Ty.Underlying().(*types.Pointer)
		if !ok {
			x.eng.specError(Clause{Text: m, File: ct.File, Line: ct.Line}, fmt.Errorf("modifies object is not a pointer"))
			continue
		}
		si := x.so.structInfo(p.Elem())
		ml := modLoc{comp: x.so.structComp(p.Elem()), obj: tv.T}
		if fn != "*" {
			// resolve possibly promoted field: only direct fields supported
			found := false
			for _, f := range si.Fields {
				if f.Name == fn {
					ml.fields = []string{f.Acc}
					found = true
				}
			}
			if !found {
				x.eng.specError(Clause{Text: m, File: ct.File, Line: ct.Line}, fmt.Errorf("no field %s", fn))
				continue
			}
		}
		out = append(out, ml)
	}
	return out
}

// frameFormula builds, for one component, the statement "nothing below
// naOld changed except the allowed locations".  Returns "" if the
// component may change arbitrarily.
func (x *Exec) frameFormula(comp string, locs []modLoc, oldSym, newSym, naOld string, withPattern bool) string {
	srt := x.so.comps[comp]
	var mine []modLoc
	for _, l := range locs {
		if l.comp == comp {
			if l.whole {
				return ""
			}
			mine = append(mine, l)
		}
	}
	if !strings.HasPrefix(srt, "(Array Int") {
		// scalar component (global, scalar ghost)
		if len(mine) > 0 {
			return ""
		}
		return "(= " + newSym + " " + oldSym + ")"
	}
	rng := "(and (< 0 r!) (< r! " + naOld + "))"
	if strings.HasPrefix(comp, "G_") && x.eng.ghostByValue[strings.TrimPrefix(comp, "G_")] {
		rng = "true"
	}
	pat := ""
	if withPattern {
		pat = " :pattern ((select " + newSym + " r!))"
	}
	// struct component with field-level exceptions?
	var si *StructInfo
	if strings.HasPrefix(comp, "H_") {
		si = x.so.structs[strings.TrimPrefix(comp, "H_")]
	}
	fieldLevel := false
	for _, l := range mine {
		if len(l.fields) > 0 {
			fieldLevel = true
		}
	}
	if si == nil || !fieldLevel {
		var ex []string
		for _, l := range mine {
			if l.obj != "" {
				ex = append(ex, "(not (= r! "+l.obj+"))")
			} else {
				return ""
			}
		}
		body := "(=> " + and(append([]string{rng}, ex...)...) + " (= (select " + newSym + " r!) (select " + oldSym + " r!)))"
		if withPattern {
			return "(forall ((r! Int)) (! " + body + pat + "))"
		}
		return "(forall ((r! Int)) " + body + ")"
	}
	// field-level
	var conj []string
	for _, f := range si.Fields {
		var allowed []string
		for _, l := range mine {
			hit := len(l.fields) == 0
			for _, lf := range l.fields {
				if lf == f.Acc {
					hit = true
				}
			}
			if hit {
				if l.obj == "" {
					allowed = append(allowed, "true")
				} else {
					allowed = append(allowed, "(= r! "+l.obj+")")
				}
			}
		}
		eq := "(= (" + f.Acc + " (select " + newSym + " r!)) (" + f.Acc + " (select " + oldSym + " r!)))"
		conj = append(conj, or(append(allowed, eq)...))
	}
	body := "(=> " + rng + " " + and(conj...) + ")"
	if withPattern {
		return "(forall ((r! Int)) (! " + body + pat + "))"
	}
	return "(forall ((r! Int)) " + body + ")"
}

// frameFacts assumes (at a call) or checks (at function exit) the frame of
// every written component.
func (x *Exec) frameFacts(ct *Contract, env *Env, ws *WriteSet, old, nw *State, reach string, check bool, tag string) {
	locs := x.parseModifies(ct, env)
	var comps []string
	if ws != nil {
		comps = ws.sorted()
	}
	if check {
		// every component whose symbol changed
		seen := map[string]bool{}
		comps = nil
		for c := range nw.m {
			seen[c] = true
			comps = append(comps, c)
		}
		sort.Strings(comps)
	}
	for _, c := range comps {
		if _, ok := x.so.comps[c]; !ok {
			continue
		}
		o, n := old.get(c), nw.get(c)
		if o == n {
			continue
		}
		if !check && ws != nil {
			x.fieldFrame(ws, c, o, n, old.na, reach)
		}
		f := x.frameFormula(c, locs, o, n, old.na, !check)
		if f == "" {
			continue
		}
		if check {
			x.oblige("frame", c, reach, f, "only declared locations of "+c+" are modified", token.NoPos)
		} else {
			x.assume(reach, f)
		}
	}
}

func (x *Exec) frameCasesOnly(ct *Contract, posts []*Env, st0 *State, only string) {
	x.frameOnly = only
	x.frameCases(ct, posts, st0)
	x.frameOnly = ""
}

// fieldFrame: fields of struct component c that the callee (transitively)
// never stores to keep their value in every pre-existing object.
func (x *Exec) fieldFrame(ws *WriteSet, c, o, n, naOld, reach string) {
	if !strings.HasPrefix(c, "H_") || ws.Fields[c]["*"] {
		return
	}
	si := x.so.structs[strings.TrimPrefix(c, "H_")]
	if si == nil {
		return
	}
	var conj []string
	for _, fld := range si.Fields {
		if !ws.Fields[c][fld.Acc] {
			conj = append(conj, "(= ("+fld.Acc+" (select "+n+" r!)) ("+fld.Acc+" (select "+o+" r!)))")
		}
	}
	if len(conj) > 0 {
		x.assume(reach, "(forall ((r! Int)) (! (=> (and (< 0 r!) (< r! "+naOld+")) "+and(conj...)+") :pattern ((select "+n+" r!))))")
	}
}

// inferredFieldFrames: the frame that follows from a callee's computed write set alone.
func (x *Exec) inferredFieldFrames(ws *WriteSet, old, nw *State, reach string) {
	for _, c := range ws.sorted() {
		if _, ok := x.so.comps[c]; !ok {
			continue
		}
		o, n := old.get(c), nw.get(c)
		if o != n {
			x.fieldFrame(ws, c, o, n, old.na, reach)
			if !ws.Old[c] && !strings.HasPrefix(c, "H_") && strings.HasPrefix(x.so.comps[c], "(Array Int ") {
				// only fresh rows were written: every row that existed is unchanged
				x.assume(reach, "(forall ((r! Int)) (! (=> (and (< 0 r!) (< r! "+old.na+")) (= (select "+n+" r!) (select "+o+" r!))) :pattern ((select "+n+" r!))))")
			}
		}
	}
}

// frameCases checks the function's frame at every return site.
func (x *Exec) frameCases(ct *Contract, posts []*Env, st0 *State) {
	if len(posts) == 0 || hasStar(ct.Modifies) {
		return
	}
	locs := x.parseModifies(ct, posts[0])
	seen := map[string]bool{}
	var comps []string
	for _, r := range x.topRets {
		for c := range r.st.m {
			if !seen[c] {
				seen[c] = true
				comps = append(comps, c)
			}
		}
	}
	sort.Strings(comps)
	for _, c := range comps {
		if _, ok := x.so.comps[c]; !ok {
			continue
		}
		if x.frameOnly != "" && c != x.frameOnly {
			continue
		}
		if strings.HasPrefix(c, "L_") {
			continue // private cells of this activation (or of an inlined callee): invisible to the caller
		}
		var cases []oblCase
		for _, r := range x.topRets {
			o, n := st0.get(c), r.st.get(c)
			if o == n {
				continue
			}
			f := x.frameFormula(c, locs, o, n, st0.na, false)
			if f == "" {
				continue
			}
			cases = append(cases, oblCase{Guard: r.cond, Goal: f, Block: r.block})
		}
		if len(cases) > 0 {
			x.obligeCases("frame", c, cases, "only declared locations of "+c+" are modified", token.NoPos)
		}
	}
}

// ---------------------------------------------------------------- builtins

func (x *Exec) execBuiltin(fr *frame, b *ssa.Builtin, cc *ssa.CallCommon, args []sval, st *State, reach string, pos token.Pos) (sval, *State) {
	switch b.Name() {
	case "len", "cap":
		at := cc.Args[0].Type()
		switch u := at.Underlying().(type) {
		case *types.Slice, *types.Basic:
			if b.Name() == "len" {
				return sval{t: "(s_len " + args[0].t + ")"}, st
			}
			return sval{t: "(s_cap " + args[0].t + ")"}, st
		case *types.Pointer:
			if a, ok := u.Elem().Underlying().(*types.Array); ok {
				return sval{t: strconv.FormatInt(a.Len(), 10)}, st
			}
		case *types.Array:
			return sval{t: strconv.FormatInt(u.Len(), 10)}, st
		case *types.Map:
			_, mp := x.so.mapComp(u)
			r := x.define("maplen", "Int", "(ite (= "+args[0].t+" 0) 0 (mapcard_"+sanitize(typeKey(u.Key()))+" (select "+st.get(mp)+" "+args[0].t+")))")
			x.eng.needMapCard(u.Key(), x.so.sortOf(u.Key()))
			x.assume(reach, "(>= "+r+" 0)")
			return sval{t: r}, st
		}
		r := x.freshConst("len", "Int")
		x.assume(reach, "(>= "+r+" 0)")
		return sval{t: r}, st
	case "append":
		return x.execAppend(fr, cc, args, st, reach, pos)
	case "copy":
		dst, src := args[0], args[1]
		var et types.Type = types.Typ[types.Uint8]
		if sl, ok := cc.Args[0].Type().Underlying().(*types.Slice); ok {
			et = sl.Elem()
		}
		comp := x.so.elemComp(et)
		n := x.define("ncopy", "Int", "(ite (< (s_len "+dst.t+") (s_len "+src.t+")) (s_len "+dst.t+") (s_len "+src.t+"))")
		cur := st.get(comp)
		x.eng.needRowOps(x.so.sortOf(et))
		es := sanitize(x.so.sortOf(et))
		st.set(comp, x.define(comp, x.so.comps[comp], "(ite (= "+n+" 0) "+cur+" (store "+cur+" (s_base "+dst.t+") (copyRow_"+es+" (select "+cur+" (s_base "+dst.t+")) (s_off "+dst.t+") (select "+cur+" (s_base "+src.t+")) (s_off "+src.t+") "+n+")))"))
		return sval{t: n}, st
	case "delete":
		mt := cc.Args[0].Type().Underlying().(*types.Map)
		mv, mp := x.so.mapComp(mt)
		m, k := args[0].t, args[1].t
		st.set(mp, x.define(mp, x.so.comps[mp], "(ite (= "+m+" 0) "+st.get(mp)+" (store "+st.get(mp)+" "+m+" (store (select "+st.get(mp)+" "+m+") "+k+" false)))"))
		_ = mv
		return sval{t: "0"}, st
	case "min", "max":
		op := "<"
		if b.Name() == "max" {
			op = ">"
		}
		r := args[0].t
		for _, a := range args[1:] {
			r = "(ite (" + op + " " + a.t + " " + r + ") " + a.t + " " + r + ")"
		}
		return sval{t: x.define("mm", x.so.sortOf(cc.Args[0].Type()), r)}, st
	case "print", "println":
		return sval{t: "0"}, st
	case "close":
		return sval{t: "0"}, st
	}
	x.note("unmodelled builtin " + b.Name())
	x.curTaint = true
	var nst *State
	if x.errflow {
		nst = x.havocHeapKeepGhosts(st, nil)
	} else {
		nst = x.havocForWrites(st, &WriteSet{Top: true}, "builtin")
	}
	return x.freshResults(cc.Signature(), nst, reach), nst
}

func (x *Exec) execAppend(fr *frame, cc *ssa.CallCommon, args []sval, st *State, reach string, pos token.Pos) (sval, *State) {
	s, t := args[0], args[1]
	var et types.Type = types.Typ[types.Uint8]
	if sl, ok := cc.Args[0].Type().Underlying().(*types.Slice); ok {
		et = sl.Elem()
	}
	comp := x.so.elemComp(et)
	es := sanitize(x.so.sortOf(et))
	x.eng.needRowOps(x.so.sortOf(et))
	// append(s, str...) where the second argument is a string: same model
	doneAlloc := x.allocFrame(st, comp)
	r := x.allocRef(st, "app")
	cur := st.get(comp)
	nl := x.define("applen", "Int", "(+ (s_len "+s.t+") (s_len "+t.t+"))")
	st.set(comp, x.define(comp, x.so.comps[comp], "(store "+cur+" "+r+" (appendRow_"+es+" (select "+cur+" (s_base "+s.t+")) (s_off "+s.t+") (s_len "+s.t+") (select "+cur+" (s_base "+t.t+")) (s_off "+t.t+") (s_len "+t.t+")))"))
	doneAlloc()
	ncap := x.freshConst("appcap", "Int")
	x.assume(reach, "(and (>= "+ncap+" "+nl+") (<= "+ncap+" 4611686018427387904))")
	// appending nothing to nil yields nil
	res := x.define("app", "Slice", "(ite (and (= (s_base "+s.t+") 0) (= (s_len "+t.t+") 0)) nilS (mkS "+r+" 0 "+nl+" "+ncap+"))")
	x.note("append is modelled as always copying into a fresh backing array")
	return sval{t: res}, st
}

// ---------------------------------------------------------------- write sets

type WriteSet struct {
	Top   bool
	Comps map[string]bool
	// Fields: for struct components, the record fields (accessor names) of
	// pre-existing objects that may be stored to; "*" = any field.  A struct
	// component in Comps without an entry here is only allocated into.
	Fields map[string]map[string]bool
	// Old: array-like components (BM, E_…, C_…) of which a row that existed before the
	// call may be written; a component in Comps but not in Old only receives fresh rows
	// (make, append's new backing array, conversions, local arrays).
	Old map[string]bool
}

func (w *WriteSet) add(c string) {
	w.addFresh(c)
	if w.Old == nil {
		w.Old = map[string]bool{}
	}
	w.Old[c] = true
}

// addFresh: c only receives rows/objects allocated during the call
func (w *WriteSet) addFresh(c string) {
	if w.Comps == nil {
		w.Comps = map[string]bool{}
	}
	w.Comps[c] = true
}

func (w *WriteSet) addField(c, acc string) {
	w.add(c)
	if w.Fields == nil {
		w.Fields = map[string]map[string]bool{}
	}
	if w.Fields[c] == nil {
		w.Fields[c] = map[string]bool{}
	}
	w.Fields[c][acc] = true
}

func (w *WriteSet) merge(o *WriteSet) {
	if o.Top {
		w.Top = true
	}
	for c := range o.Comps {
		if o.Old[c] {
			w.add(c)
		} else {
			w.addFresh(c)
		}
	}
	for c, fs := range o.Fields {
		for f := range fs {
			w.addField(c, f)
		}
	}
}

func (w *WriteSet) union(o *WriteSet) *WriteSet {
	n := &WriteSet{Top: w.Top || o.Top, Comps: map[string]bool{}}
	n.merge(w)
	n.merge(o)
	return n
}

func (w *WriteSet) sorted() []string {
	var out []string
	for c := range w.Comps {
		out = append(out, c)
	}
	sort.Strings(out)
	return out
}

// contractWrites: components named in a contract's modifies/allocates.
func (e *Engine) contractWrites(x *Exec, ct *Contract) *WriteSet {
	ws := &WriteSet{Comps: map[string]bool{}}
	pkg := e.pkgOfKey(ct.Key)
	for _, m := range ct.Modifies {
		m = strings.TrimSpace(m)
		if m == "*" {
			ws.Top = true
			continue
		}
		if strings.HasPrefix(m, "comp:") {
			ws.add(strings.TrimPrefix(m, "comp:"))
			continue
		}
		if m == "BM" || m == "BM[*]" {
			ws.add("BM")
			continue
		}
		g := m
		if i := strings.Index(m, "["); i > 0 {
			g = m[:i]
		}
		if _, ok := e.ghosts[g]; ok {
			ws.add("G_" + g)
			continue
		}
		if strings.HasSuffix(m, "[*]") {
			body := strings.TrimSuffix(m, "[*]")
			if i := strings.LastIndex(body, "."); i > 0 {
				if t := e.lookupType(body[:i], pkg); t != nil {
					comp := x.so.structComp(t)
					fld := "*"
					if fn := body[i+1:]; fn != "*" {
						acc := strings.TrimPrefix(comp, "H_") + "_" + fn
						if si := x.so.structs[strings.TrimPrefix(comp, "H_")]; si != nil {
							for _, f := range si.Fields {
								if f.Acc == acc {
									fld = acc
								}
							}
						}
					}
					ws.addField(comp, fld)
					continue
				}
			}
		}
		// object locations: resolved through the parameter types
		// (conservatively: need the expression type) — handled by caller via
		// parseModifies; here we approximate using parameter name typing.
		ws.add("?" + m)
	}
	for _, a := range ct.Allocates {
		if a == "BM" {
			ws.addFresh("BM")
			continue
		}
		if strings.HasPrefix(a, "comp:") {
			ws.addFresh(strings.TrimPrefix(a, "comp:"))
			continue
		}
		if t := e.lookupType(a, pkg); t != nil {
			if _, ok := t.Underlying().(*types.Struct); ok {
				ws.addFresh(x.so.structComp(t))
			}
		}
	}
	// resolve "?expr.f" entries through the function's parameter types
	fn := e.fns[ct.Key]
	var out = &WriteSet{Comps: map[string]bool{}}
	for c, fs := range ws.Fields {
		for f := range fs {
			out.addField(c, f)
		}
	}
	for c := range ws.Comps {
		if !strings.HasPrefix(c, "?") {
			out.add(c)
			continue
		}
		expr := strings.TrimPrefix(c, "?")
		comp := e.resolveModComp(x, ct, fn, expr)
		if comp == "" {
			out.Top = true
			x.note("cannot resolve modifies location statically: " + expr + " of " + ct.Key)
		} else if strings.HasPrefix(comp, "H_") {
			// x.f names one field of the object; anything else (a whole object) all of them
			fld := "*"
			if i := strings.LastIndex(expr, "."); i > 0 && !strings.ContainsAny(expr[i+1:], "[]()* ") {
				acc := strings.TrimPrefix(comp, "H_") + "_" + expr[i+1:]
				if si := x.so.structs[strings.TrimPrefix(comp, "H_")]; si != nil {
					for _, f := range si.Fields {
						if f.Acc == acc {
							fld = acc
						}
					}
				}
			}
			out.addField(comp, fld)
		} else {
			out.add(comp)
		}
	}
	return out
}

// resolveModComp finds the component of a modifies location like
// "node.leftNode", "*p", "s[*]" using the declared parameter types.
func (e *Engine) resolveModComp(x *Exec, ct *Contract, fn *ssa.Function, expr string) string {
	var ptypes []types.Type
	if fn != nil {
		for _, p := range fn.Params {
			ptypes = append(ptypes, p.Type())
		}
	} else if sig := e.sigOfKey(ct.Key); sig != nil {
		if sig.Recv() != nil {
			ptypes = append(ptypes, sig.Recv().Type())
		}
		for i := 0; i < sig.Params().Len(); i++ {
			ptypes = append(ptypes, sig.Params().At(i).Type())
		}
	}
	root := expr
	root = strings.TrimPrefix(root, "*")
	root = strings.TrimSuffix(root, "[*]")
	parts := strings.Split(root, ".")
	var t types.Type
	for i, n := range ct.Params {
		if n == parts[0] && i < len(ptypes) {
			t = ptypes[i]
		}
	}
	if t == nil {
		// let-bound name or free variable: give up
		if fn != nil {
			for _, fv := range fn.FreeVars {
				if fv.Name() == parts[0] {
					t = fv.Type()
				}
			}
		}
		if t == nil {
			return ""
		}
	}
	// walk fields except the last (which names the modified field)
	walk := parts[1:]
	isDeref := strings.HasPrefix(expr, "*")
	isElems := strings.HasSuffix(expr, "[*]")
	if !isDeref && !isElems && len(walk) > 0 {
		walk = walk[:len(walk)-1]
	}
	for _, f := range walk {
		t = fieldType(t, f)
		if t == nil {
			return ""
		}
	}
	if isElems {
		switch u := t.Underlying().(type) {
		case *types.Slice:
			return x.so.elemComp(u.Elem())
		case *types.Pointer:
			if a, ok := u.Elem().Underlying().(*types.Array); ok {
				return x.so.elemComp(a.Elem())
			}
		}
		return ""
	}
	p, ok := t.Underlying().(*types.Pointer)
	if !ok {
		return ""
	}
	if _, isS := p.Elem().Underlying().(*types.Struct); isS {
		return x.so.structComp(p.Elem())
	}
	return x.so.cellComp(p.Elem())
}

func fieldType(t types.Type, name string) types.Type {
	if p, ok := t.Underlying().(*types.Pointer); ok {
		t = p.Elem()
	}
	st, ok := t.Underlying().(*types.Struct)
	if !ok {
		return nil
	}
	for i := 0; i < st.NumFields(); i++ {
		if st.Field(i).Name() == name {
			return st.Field(i).Type()
		}
	}
	for i := 0; i < st.NumFields(); i++ {
		if st.Field(i).Embedded() {
			if r := fieldType(st.Field(i).Type(), name); r != nil {
				return r
			}
		}
	}
	return nil
}

// writeSet computes (memoised) the set of heap components a function with a
// body may write, transitively through static calls and contracts.
// externArgWrites: default effect of an external function without contract.
func (e *Engine) externArgWrites(ws *WriteSet, cc *ssa.CallCommon) {
	for _, a := range cc.Args {
		switch u := a.Type().Underlying().(type) {
		case *types.Slice:
			ws.add(e.so.elemComp(u.Elem()))
		case *types.Pointer:
			switch pu := u.Elem().Underlying().(type) {
			case *types.Struct:
				ws.addField(e.so.structComp(u.Elem()), "*")
			case *types.Array:
				ws.add(e.so.elemComp(pu.Elem()))
			default:
				ws.add(e.so.cellComp(u.Elem()))
			}
		}
	}
}

// resolveParamCallees: the functions that can flow into a function-typed
// parameter of an unexported function, from all its call sites in the loaded
// (non-test) program.  nil = unknown.
func (e *Engine) resolveParamCallees(v ssa.Value, depth int) []*ssa.Function {
	p, ok := v.(*ssa.Parameter)
	if !ok || depth > 3 {
		return nil
	}
	f := p.Parent()
	if f == nil || !inRepoFn(f) {
		return nil
	}
	if f.Object() != nil && f.Object().Exported() && f.Parent() == nil {
		// exported API: callers outside the repository may pass anything
		if recv := f.Signature.Recv(); recv == nil || types.NewMethodSet(recv.Type()).Len() >= 0 {
			return nil
		}
	}
	idx := -1
	for i, q := range f.Params {
		if q == p {
			idx = i
		}
	}
	if idx < 0 {
		return nil
	}
	if e.callers == nil {
		e.callers = map[*ssa.Function][]ssa.CallInstruction{}
		for _, g := range e.fns {
			for _, b := range g.Blocks {
				for _, ins := range b.Instrs {
					if c, ok := ins.(ssa.CallInstruction); ok {
						if callee := c.Common().StaticCallee(); callee != nil {
							e.callers[callee] = append(e.callers[callee], c)
						}
					}
				}
			}
		}
	}
	var out []*ssa.Function
	sites := e.callers[f]
	if len(sites) == 0 {
		return nil
	}
	for _, c := range sites {
		args := c.Common().Args
		if idx >= len(args) {
			return nil
		}
		switch a := args[idx].(type) {
		case *ssa.MakeClosure:
			out = append(out, a.Fn.(*ssa.Function))
		case *ssa.Function:
			out = append(out, a)
		case *ssa.Parameter:
			sub := e.resolveParamCallees(a, depth+1)
			if sub == nil {
				return nil
			}
			out = append(out, sub...)
		case *ssa.Const:
			// nil function: never called
		default:
			return nil
		}
	}
	return out
}

func (e *Engine) wsWhy(fn *ssa.Function, why string) {
	if os.Getenv("GOVC_WS_DEBUG") != "" {
		fmt.Fprintf(os.Stderr, "ws-top: %s: %s\n", fn.String(), why)
	}
}

func (e *Engine) writeSet(fn *ssa.Function) *WriteSet {
	if ws, ok := e.wsMemo[fn]; ok {
		return ws
	}
	if e.wsBusy[fn] {
		return &WriteSet{Comps: map[string]bool{}}
	}
	e.wsBusy[fn] = true
	ws := e.scanWrites(fn, fn.Blocks)
	delete(e.wsBusy, fn)
	// a second pass settles recursion (self-calls contributed nothing the first time)
	e.wsMemo[fn] = ws
	if d := os.Getenv("GOVC_WS_DUMP"); d != "" && strings.Contains(fn.String(), d) {
		fmt.Fprintf(os.Stderr, "ws-dump %s: top=%v comps=%v\n", fn.String(), ws.Top, ws.sorted())
		for c, fs := range ws.Fields {
			var names []string
			for f := range fs {
				names = append(names, f)
			}
			sort.Strings(names)
			fmt.Fprintf(os.Stderr, "   %s: %v\n", c, names)
		}
	}
	return ws
}

func (e *Engine) loopWriteSet(fn *ssa.Function, body map[*ssa.BasicBlock]bool) *WriteSet {
	var bs []*ssa.BasicBlock
	for _, b := range fn.Blocks {
		if body[b] {
			bs = append(bs, b)
		}
	}
	return e.scanWrites(fn, bs)
}

func (e *Engine) scanWrites(fn *ssa.Function, blocks []*ssa.BasicBlock) *WriteSet {
	ws := &WriteSet{Comps: map[string]bool{}}
	so := e.so
	x := e.scanExec
	addrComp := func(v ssa.Value) {
		switch a := v.(type) {
		case *ssa.FieldAddr:
			// outermost object
			var cur ssa.Value = a
			for {
				fa, ok := cur.(*ssa.FieldAddr)
				if !ok {
					break
				}
				if inner, ok := fa.X.(*ssa.FieldAddr); ok {
					cur = inner
					continue
				}
				pt := fa.X.Type().Underlying().(*types.Pointer).Elem()
				ws.addField(so.structComp(pt), so.structInfo(pt).Fields[fa.Field].Acc)
				return
			}
		case *ssa.IndexAddr:
			fresh := freshLocalSlice(a.X, 0)
			switch u := a.X.Type().Underlying().(type) {
			case *types.Slice:
				if fresh {
					ws.addFresh(so.elemComp(u.Elem()))
				} else {
					ws.add(so.elemComp(u.Elem()))
				}
			case *types.Pointer:
				if at, ok := u.Elem().Underlying().(*types.Array); ok {
					if fresh {
						ws.addFresh(so.elemComp(at.Elem()))
					} else {
						ws.add(so.elemComp(at.Elem()))
					}
				}
			}
		case *ssa.Global:
			ws.add(so.globalComp(a.Pkg.Pkg.Path()+"."+a.Name(), a.Type().(*types.Pointer).Elem()))
		default:
			et := v.Type().Underlying().(*types.Pointer).Elem()
			if al, ok := v.(*ssa.Alloc); ok && !al.Heap && isScalarCell(et) {
				ws.add("L?" + sanitize(al.Parent().Name()) + "_" + al.Name())
				return
			}
			switch u := et.Underlying().(type) {
			case *types.Struct:
				if _, isAlloc := v.(*ssa.Alloc); isAlloc {
					ws.add(so.structComp(et)) // initialising a fresh object
				} else {
					ws.addField(so.structComp(et), "*")
				}
			case *types.Array:
				ws.add(so.elemComp(u.Elem()))
			default:
				ws.add(so.cellComp(et))
			}
		}
	}
	for _, b := range blocks {
		for _, ins := range b.Instrs {
			switch t := ins.(type) {
			case *ssa.Store:
				addrComp(t.Addr)
				if fa, ok := t.Addr.(*ssa.FieldAddr); ok {
					pt := fa.X.Type().Underlying().(*types.Pointer).Elem()
					si := so.structInfo(pt)
					if g, ok := e.onStore[so.structComp(pt)+"."+si.Fields[fa.Field].Acc]; ok {
						ws.add("G_" + g)
					}
					if g, ok := e.onStoreFlag[so.structComp(pt)+"."+si.Fields[fa.Field].Acc]; ok {
						ws.add("G_" + g)
					}
				}
			case *ssa.Alloc:
				et := t.Type().(*types.Pointer).Elem()
				if !t.Heap && isScalarCell(et) {
					ws.add("L?" + sanitize(t.Parent().Name()) + "_" + t.Name())
					continue
				}
				switch u := et.Underlying().(type) {
				case *types.Struct:
					ws.addFresh(so.structComp(et))
				case *types.Array:
					ws.addFresh(so.elemComp(u.Elem()))
				default:
					ws.addFresh(so.cellComp(et))
				}
			case *ssa.MakeSlice:
				ws.addFresh(so.elemComp(t.Type().Underlying().(*types.Slice).Elem()))
			case *ssa.MakeMap:
				mv, mp := so.mapComp(t.Type().Underlying().(*types.Map))
				ws.add(mv)
				ws.add(mp)
			case *ssa.MapUpdate:
				mv, mp := so.mapComp(t.Map.Type().Underlying().(*types.Map))
				ws.add(mv)
				ws.add(mp)
			case *ssa.Convert:
				if so.sortOf(t.Type()) == "Slice" && so.sortOf(t.X.Type()) == "Slice" {
					ws.addFresh("BM")
					so.elemComp(types.Typ[types.Uint8])
				}
			case *ssa.Go, *ssa.Send, *ssa.Select:
				ws.Top = true
				e.wsWhy(fn, fmt.Sprintf("%T", ins))
			case ssa.CallInstruction:
				cc := t.Common()
				if bi, ok := cc.Value.(*ssa.Builtin); ok {
					switch bi.Name() {
					case "append":
						// modelled as always copying into a fresh backing array
						if sl, ok := cc.Args[0].Type().Underlying().(*types.Slice); ok {
							ws.addFresh(so.elemComp(sl.Elem()))
						}
					case "copy":
						if sl, ok := cc.Args[0].Type().Underlying().(*types.Slice); ok {
							if freshLocalSlice(cc.Args[0], 0) {
								ws.addFresh(so.elemComp(sl.Elem()))
							} else {
								ws.add(so.elemComp(sl.Elem()))
							}
						}
					case "delete":
						mv, mp := so.mapComp(cc.Args[0].Type().Underlying().(*types.Map))
						ws.add(mv)
						ws.add(mp)
					}
					continue
				}
				var key string
				var callee *ssa.Function
				if cc.IsInvoke() {
					key = cc.Method.FullName()
				} else if f := cc.StaticCallee(); f != nil {
					callee = f
					key = f.String()
				} else if mc, ok := cc.Value.(*ssa.MakeClosure); ok {
					callee = mc.Fn.(*ssa.Function)
					key = callee.String()
				} else {
					// function value: try to find a unique closure stored in the cell it was loaded from
					if f := e.resolveFuncValue(cc.Value); f != nil {
						callee = f
						key = f.String()
					} else if fs := e.resolveParamCallees(cc.Value, 0); fs != nil {
						// a function-typed parameter of an unexported function: closed world
						for _, f := range fs {
							ws.merge(e.writeSet(f))
						}
						continue
					} else {
						ws.Top = true
						e.wsWhy(fn, "dynamic call")
						continue
					}
				}
				if cc.IsInvoke() {
					k2 := "(" + cc.Value.Type().String() + ")." + cc.Method.Name()
					if _, ok := e.contracts[k2]; ok {
						key = k2
					}
				}
				ct := e.contracts[key]
				if ct != nil && ct.Havoc {
					ws.Top = true
					e.wsWhy(fn, "havoc contract "+key)
					continue
				}
				if callee != nil && !inRepoFn(callee) && ct == nil {
					// external function without contract: assumed to write only memory
					// reachable (one level) from its arguments
					e.externArgWrites(ws, cc)
					continue
				}
				if ct != nil {
					for _, g := range ct.Counts {
						ws.add("G_" + g)
					}
				}
				if callee != nil && len(callee.Blocks) > 0 && inRepoFn(callee) && (ct == nil || !ct.Assumed) {
					sub := e.writeSet(callee)
					ws.merge(sub)
					if ct != nil && !hasStar(ct.Modifies) {
						// `modifies *` on a function with a body only waives its frame obligation:
						// what it can write is bounded by what its code writes (computed above)
						cw := e.contractWrites(x, ct)
						ws.merge(cw)
					}
					continue
				}
				if ct != nil {
					cw := e.contractWrites(x, ct)
					e.refineFreshArgs(cw, ct, cc)
					ws.merge(cw)
					if cw.Top {
						e.wsWhy(fn, "contract with unresolved/unbounded modifies: "+key)
					}
					continue
				}
				ws.Top = true
				e.wsWhy(fn, "call without contract: "+key)
			}
		}
	}
	return ws
}

// resolveFuncValue handles the "var f func(...); f = func(...){... f() ...}"
// idiom: the called value is loaded from a cell whose only store is a
// MakeClosure.
func (e *Engine) resolveFuncValue(v ssa.Value) *ssa.Function {
	u, ok := v.(*ssa.UnOp)
	if !ok || u.Op != token.MUL {
		return nil
	}
	var cell ssa.Value = u.X
	// free variable: look in the parent for the binding
	if fv, ok := cell.(*ssa.FreeVar); ok {
		par := fv.Parent().Parent()
		if par == nil {
			return nil
		}
		for _, b := range par.Blocks {
			for _, ins := range b.Instrs {
				if mc, ok := ins.(*ssa.MakeClosure); ok && mc.Fn == fv.Parent() {
					for i, bind := range mc.Bindings {
						if fv.Parent().FreeVars[i] == fv {
							cell = bind
						}
					}
				}
			}
		}
	}
	refs := cell.Referrers()
	if refs == nil {
		return nil
	}
	var found *ssa.Function
	for _, r := range *refs {
		if s, ok := r.(*ssa.Store); ok && s.Addr == cell {
			mc, ok := s.Val.(*ssa.MakeClosure)
			if !ok {
				return nil
			}
			if found != nil {
				return nil
			}
			found = mc.Fn.(*ssa.Function)
		}
	}
	return found
}


// checkCallsites: `callsite <target> [label] expr` clauses of the function
// under verification — expr (over the function's parameters, the named locals
// visible at the call and arg0, arg1, …) must hold at every call of <target>.
func (x *Exec) checkCallsites(fr *frame, cc *ssa.CallCommon, args []sval, st *State, reach string, pos token.Pos, at ssa.Value) {
	name := callsiteName(cc)
	if name == "" {
		return
	}
	var blk *ssa.BasicBlock
	if ins, ok := at.(ssa.Instruction); ok {
		blk = ins.Block()
	}
	for _, c := range x.ct.Callsites {
		// target[@k]: k = ordinal (from 1, in source order) of the call among the calls of the function matching target
		target, want := c.Target, 0
		if i := strings.LastIndex(target, "@"); i > 0 {
			fmt.Sscanf(target[i+1:], "%d", &want)
			target = target[:i]
		}
		if !callsiteMatch(target, name) {
			continue
		}
		if want != 0 {
			var sites []token.Pos
			for _, b := range fr.fn.Blocks {
				for _, ins := range b.Instrs {
					if ci, ok := ins.(ssa.CallInstruction); ok && callsiteMatch(target, callsiteName(ci.Common())) {
						sites = append(sites, ins.Pos())
					}
				}
			}
			sort.Slice(sites, func(i, j int) bool { return sites[i] < sites[j] })
			ord := 0
			for i, p := range sites {
				if p == pos {
					ord = i + 1
				}
			}
			if ord != want {
				continue
			}
		}
		x.nameCount[fmt.Sprintf("callsite-hit:%d", c.Line)]++
		var st0 *State
		if x.topEnv != nil {
			st0 = x.topEnv.st
		}
		env := x.baseEnv(fr, st, st0)
		if blk != nil {
			for _, b := range fr.fn.Blocks {
				if !b.Dominates(blk) {
					continue
				}
				for _, ins := range b.Instrs {
					if b == blk && ins == at.(ssa.Instruction) {
						break
					}
					if d, ok := ins.(*ssa.DebugRef); ok && !d.IsAddr {
						if obj := d.Object(); obj != nil {
							if sv, ok := fr.vals[d.X]; ok {
								env.vars[obj.Name()] = TVal{T: sv.t, Sort: x.so.sortOf(d.X.Type()), Ty: d.X.Type()}
							} else if k, ok := d.X.(*ssa.Const); ok {
								env.vars[obj.Name()] = TVal{T: x.constTerm(k), Sort: x.so.sortOf(k.Type()), Ty: k.Type()}
							}
						}
					}
				}
			}
			// loop-carried variables: phis of dominating blocks carry the source name
			for _, b := range fr.fn.Blocks {
				if !b.Dominates(blk) {
					continue
				}
				for _, ins := range b.Instrs {
					phi, ok := ins.(*ssa.Phi)
					if !ok {
						break
					}
					if sv, ok := fr.vals[phi]; ok && phi.Comment != "" {
						if _, exists := env.vars[phi.Comment]; !exists {
							env.vars[phi.Comment] = TVal{T: sv.t, Sort: x.so.sortOf(phi.Type()), Ty: phi.Type()}
						}
					}
				}
			}
		}
		// address-taken locals declared before the call: their current contents
		if blk != nil {
			for _, b := range fr.fn.Blocks {
				if !b.Dominates(blk) {
					continue
				}
				for _, ins := range b.Instrs {
					if b == blk && ins == at.(ssa.Instruction) {
						break
					}
					al, ok := ins.(*ssa.Alloc)
					if !ok || al.Comment == "" {
						continue
					}
					sv, ok := fr.vals[al]
					if !ok {
						continue
					}
					et := al.Type().(*types.Pointer).Elem()
					if !isScalarCell(et) {
						continue
					}
					if _, exists := env.vars[al.Comment]; exists {
						continue
					}
					if sv.loc != nil && sv.loc.Kind == "global" {
						env.vars[al.Comment] = TVal{T: st.get(sv.loc.Comp), Sort: x.so.sortOf(et), Ty: et}
					} else {
						env.vars[al.Comment] = TVal{T: "(select " + st.get(x.so.cellComp(et)) + " " + sv.t + ")", Sort: x.so.sortOf(et), Ty: et}
					}
				}
			}
		}
		// captured variables (free variables are cells): where no debug reference has bound the name
		// and the clause does not dereference it itself, the name means the cell's current contents
		for _, fv := range fr.fn.FreeVars {
			pt, ok := fv.Type().(*types.Pointer)
			if !ok || !isScalarCell(pt.Elem()) {
				continue
			}
			if cur, bound := env.vars[fv.Name()]; bound && cur.T != x.paramEnv[fv.Name()].T {
				continue
			}
			if pe, isParam := x.paramEnv[fv.Name()]; !isParam || regexp.MustCompile(`\*\s*\(?\s*`+regexp.QuoteMeta(fv.Name())+`\b`).MatchString(c.Text) {
				_ = pe
				continue
			}
			sv, ok := fr.vals[fv]
			if !ok {
				continue
			}
			et := pt.Elem()
			env.vars[fv.Name()] = TVal{T: "(select " + st.get(x.so.cellComp(et)) + " " + sv.t + ")", Sort: x.so.sortOf(et), Ty: et}
		}
		for i, a := range args {
			if i < len(cc.Args) {
				env.vars[fmt.Sprintf("arg%d", i)] = TVal{T: a.t, Sort: x.so.sortOf(cc.Args[i].Type()), Ty: cc.Args[i].Type()}
			}
		}
		tv, err := env.trTerm(c.Text)
		if err != nil {
			x.eng.specError(c, err)
			continue
		}
		lbl := c.Label
		if lbl == "" {
			lbl = fmt.Sprintf("L%d", c.Line)
		}
		// all call sites of one clause form ONE obligation (a new call site that breaks the
		// clause fails the clause's obligation, it does not create a differently named one)
		_ = lbl
		if x.csCases == nil {
			x.csCases = map[int][]oblCase{}
			x.csSeq = map[int]int{}
		}
		if _, ok := x.csSeq[c.Line]; !ok {
			x.csSeq[c.Line] = len(x.obls) // position (in generation order) of the clause's first call site
		}
		x.csCases[c.Line] = append(x.csCases[c.Line], oblCase{Guard: reach, Goal: tv.T, Block: x.curBlock, Idx: len(x.cmds)})
		x.assume(reach, tv.T)
	}
}


func callsiteName(cc *ssa.CallCommon) string {
	if cc.IsInvoke() {
		return "(" + cc.Value.Type().String() + ")." + cc.Method.Name()
	} else if p, ok := cc.Value.(*ssa.Parameter); ok {
		return "param:" + p.Name()
	} else if f := cc.StaticCallee(); f != nil {
		return f.String()
	}
	if u, ok := cc.Value.(*ssa.UnOp); ok && u.Op == token.MUL {
		if fv, ok := u.X.(*ssa.FreeVar); ok {
			return "freevar:" + fv.Name()
		}
	}
	// a closure kept in a local that other closures capture: load of a cell stored once
	if u, ok := cc.Value.(*ssa.UnOp); ok && u.Op == token.MUL {
		if al, ok := u.X.(*ssa.Alloc); ok && al.Referrers() != nil {
			var fn *ssa.Function
			n := 0
			for _, r := range *al.Referrers() {
				if st, ok := r.(*ssa.Store); ok && st.Addr == al {
					n++
					if mc, ok := st.Val.(*ssa.MakeClosure); ok {
						fn, _ = mc.Fn.(*ssa.Function)
					}
				}
			}
			if n == 1 && fn != nil {
				return fn.String()
			}
		}
	}
	return ""
}

func callsiteMatch(target, name string) bool {
	if strings.HasSuffix(target, "$") {
		// "<suffix>$": the callee's name ends here (Descend$ does not match DescendGreaterThan)
		return name != "" && strings.HasSuffix(name, strings.TrimSuffix(target, "$"))
	}
	return name != "" && (target == name || (!strings.HasPrefix(target, "param:") && !strings.HasPrefix(target, "freevar:") && strings.Contains(name, target)))
}


// freshLocalSlice: v is (a slice of) an array or slice that this very function
// allocated (local array, make, append result, conversion): writing through it
// cannot touch a row that existed before the call.
func freshLocalSlice(v ssa.Value, depth int) bool {
	if depth > 6 {
		return false
	}
	switch t := v.(type) {
	case *ssa.Alloc:
		_, isArr := t.Type().(*types.Pointer).Elem().Underlying().(*types.Array)
		return isArr
	case *ssa.MakeSlice:
		return true
	case *ssa.Slice:
		return freshLocalSlice(t.X, depth+1)
	case *ssa.Convert:
		return true
	case *ssa.Call:
		if b, ok := t.Call.Value.(*ssa.Builtin); ok && b.Name() == "append" {
			return true
		}
	case *ssa.Phi:
		for _, e := range t.Edges {
			if !freshLocalSlice(e, depth+1) {
				return false
			}
		}
		return len(t.Edges) > 0
	}
	return false
}


// refineFreshArgs: a contract that modifies only `p[*]` for slice parameters p
// writes fresh rows only when every such actual argument is a slice of memory
// the calling function allocated itself.
func (e *Engine) refineFreshArgs(cw *WriteSet, ct *Contract, cc *ssa.CallCommon) {
	if cw.Top {
		return
	}
	params := ct.Params
	args := cc.Args
	if cc.IsInvoke() {
		// contract parameters include the receiver first
		if len(params) > 0 {
			params = params[1:]
		}
	}
	for _, m := range ct.Modifies {
		m = strings.TrimSpace(m)
		if !strings.HasSuffix(m, "[*]") {
			// something other than slice contents: leave the set as it is, unless it is a ghost or a field
			g := m
			if i := strings.Index(m, "["); i > 0 {
				g = m[:i]
			}
			if _, ok := e.ghosts[g]; ok || strings.Contains(m, ".") {
				continue
			}
			return
		}
		name := strings.TrimSuffix(m, "[*]")
		idx := -1
		for i, p := range params {
			if p == name {
				idx = i
			}
		}
		if idx < 0 || idx >= len(args) || !freshLocalSlice(args[idx], 0) {
			return
		}
	}
	for c := range cw.Old {
		if !strings.HasPrefix(c, "H_") && !strings.HasPrefix(c, "G_") {
			delete(cw.Old, c)
		}
	}
}
