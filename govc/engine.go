package main

// engine.go — loading of the repository, specification files, and the
// per-function verification driver.

import (
	"fmt"
	"go/types"
	"os"
	"path/filepath"
	"sort"
	"strconv"
	"strings"

	"golang.org/x/tools/go/packages"
	"golang.org/x/tools/go/ssa"
	"golang.org/x/tools/go/ssa/ssautil"
)

type SpecFn struct {
	Regions  []string
	ArgSorts []string
	Result   string
}

type Engine struct {
	repo       string
	verifDir   string
	prog       *ssa.Program
	pkgs       []*packages.Package
	allPkgs    map[string]*types.Package
	fns        map[string]*ssa.Function
	contracts  map[string]*Contract
	ctOrder    []string
	specFns    map[string]*SpecFn
	specConsts map[string]string
	ghosts     map[string]string
	regions    map[string][]string // region -> component names
	regionDecl []string
	specText   string
	lemmas     []*Lemma
	typeIDs    map[string]int
	so         *Sorts
	wsMemo     map[*ssa.Function]*WriteSet
	wsBusy     map[*ssa.Function]bool
	scanExec   *Exec
	specErrs   []string
	rowOps     map[string]bool
	mapCards   map[string]string
	strConsts  map[string]int
	sweepProps []sweepRule
	axioms     map[string][]Clause // package path -> global invariants assumed at function entry
	onStore    map[string]string   // "<comp>.<field accessor>" -> ghost set receiving the stored pointer
	stateInvs  []predApp           // invariants of the instrumented semantics, assumed in every state
	allocFacts map[string][2]string // comp -> (predicate, region): see ;@allocfact
	storeFacts map[string]predApp  // comp -> fact asserted after a store into an object of that comp
	ghostByValue  map[string]bool
	named         map[string]string
	regionAcc     map[string][]string
	opaqueDefs    map[string]string // opaque spec function -> defining axiom
	onAlloc       map[string]string
	onStoreFlag   map[string]string
	onAllocEmpty  map[string][]string
	callers       map[*ssa.Function][]ssa.CallInstruction
	errflow       map[string]*Contract // explicit error-flow contracts (zz_verif_errflow.go, spec/errflow.spec)
	errflowOrder  []string
	nonNilGlobals map[*ssa.Global]bool
	nonNilComps   map[string]bool
	initOnly      map[string][]string // struct component -> accessors of init-only fields (initonly.go)
}

// predApp: a spec predicate applied to state-dependent arguments
// (region names, "ghost:<name>", "na").
type predApp struct {
	Pred string
	Args []string
}

type sweepRule struct {
	pattern string
	props   []string
}

// Lemma: a spec-level proof obligation given directly in SMT-LIB.
type Lemma struct {
	Name  string
	Props []string
	Reveal []string
	Body  string // commands; must be unsat together with the prelude
	File  string
	Uses     []string // earlier lemmas whose ;@provides statement is assumed
	UsesText string   // resolved statements of the cited lemmas
	Proves   []string // named axioms of the specification (;@axiom-begin NAME … ;@axiom-end NAME) that this lemma establishes: removed from the prelude of its own check
	BadCite  string   // a citation that does not resolve to an earlier lemma with a statement
	Provides string   // the universally quantified statement this lemma establishes (for ;@uses)
}

func (e *Engine) specError(c Clause, err error) {
	msg := fmt.Sprintf("%s:%d: %v", c.File, c.Line, err)
	for _, m := range e.specErrs {
		if m == msg {
			return
		}
	}
	e.specErrs = append(e.specErrs, msg)
}

func (e *Engine) typeID(s string) int {
	if id, ok := e.typeIDs[s]; ok {
		return id
	}
	id := len(e.typeIDs) + 1
	e.typeIDs[s] = id
	return id
}

func (e *Engine) needRowOps(elemSort string) { e.rowOps[elemSort] = true }
func (e *Engine) needMapCard(k types.Type, srt string) {
	e.mapCards[sanitize(typeKey(k))] = srt
}

func (e *Engine) stringConst(x *Exec, s string) string {
	if s == "" {
		return "emptyStr"
	}
	id, ok := e.strConsts[s]
	if !ok {
		id = len(e.strConsts) + 1
		e.strConsts[s] = id
	}
	name := "strc!" + strconv.Itoa(id)
	if !x.declared[name] {
		x.declare(name, "Slice")
		x.emit(fmt.Sprintf("(assert (and (wfStr %s) (= (s_len %s) %d) (> (s_base %s) 0) (< (s_base %s) %s)))", name, name, len(s), name, name, x.entryNa))
	}
	return name
}

// specSubdir: directory (under the verif dir) holding the specification files; the v2 module has its own
var specSubdir = "spec"

func loadEngine(repo, verifDir string, patterns []string, overlay map[string][]byte) (*Engine, error) {
	e := &Engine{repo: repo, verifDir: verifDir, fns: map[string]*ssa.Function{}, contracts: map[string]*Contract{}, specFns: map[string]*SpecFn{}, specConsts: map[string]string{}, ghosts: map[string]string{}, regions: map[string][]string{}, typeIDs: map[string]int{}, so: newSorts(), wsMemo: map[*ssa.Function]*WriteSet{}, wsBusy: map[*ssa.Function]bool{}, allPkgs: map[string]*types.Package{}, rowOps: map[string]bool{}, mapCards: map[string]string{}, strConsts: map[string]int{}, axioms: map[string][]Clause{}, onStore: map[string]string{}, storeFacts: map[string]predApp{}, ghostByValue: map[string]bool{}, named: map[string]string{}, regionAcc: map[string][]string{}, opaqueDefs: map[string]string{}, onAlloc: map[string]string{}, onStoreFlag: map[string]string{}, onAllocEmpty: map[string][]string{}, errflow: map[string]*Contract{}}
	// scratch copy of go.mod/go.sum so that the repository is never written
	tmp, err := os.MkdirTemp("", "govcmod")
	if err != nil {
		return nil, err
	}
	defer os.RemoveAll(tmp)
	for _, f := range []string{"go.mod", "go.sum"} {
		b, err := os.ReadFile(filepath.Join(repo, f))
		if err != nil {
			return nil, err
		}
		if err := os.WriteFile(filepath.Join(tmp, f), b, 0o644); err != nil {
			return nil, err
		}
	}
	cfg := &packages.Config{
		Mode:       packages.LoadAllSyntax,
		Dir:        repo,
		BuildFlags: []string{"-tags=verif", "-modfile=" + filepath.Join(tmp, "go.mod")},
		Env:        append(os.Environ(), "GOFLAGS=-mod=mod", "GOPROXY=off", "GOSUMDB=off", "GOTOOLCHAIN=local"),
		Overlay:    overlay,
	}
	pkgs, err := packages.Load(cfg, patterns...)
	if err != nil {
		return nil, err
	}
	for _, p := range pkgs {
		for _, er := range p.Errors {
			return nil, fmt.Errorf("load error in %s: %v", p.PkgPath, er)
		}
	}
	e.pkgs = pkgs
	packages.Visit(pkgs, nil, func(p *packages.Package) {
		if p.Types != nil {
			e.allPkgs[p.PkgPath] = p.Types
		}
	})
	prog, _ := ssautil.AllPackages(pkgs, ssa.InstantiateGenerics|ssa.GlobalDebug)
	prog.Build()
	e.prog = prog
	for fn := range ssautil.AllFunctions(prog) {
		e.fns[fn.String()] = fn
	}
	e.scanExec = e.newExec(nil, nil)
	e.findSentinelErrors()
	e.so.elemComp(types.Typ[types.Uint8])
	// contracts inside the repository packages
	for _, p := range pkgs {
		for _, f := range p.CompiledGoFiles {
			if filepath.Base(f) == "zz_verif_errflow.go" {
				cts, _, err := parseContractFile(f, p.PkgPath)
				if err != nil {
					return nil, err
				}
				for _, c := range cts {
					c.NoSafety = true
					e.errflow[c.Key] = c
					e.errflowOrder = append(e.errflowOrder, c.Key)
				}
			}
			if filepath.Base(f) == "zz_verif_contracts.go" {
				cts, axs, err := parseContractFile(f, p.PkgPath)
				if err != nil {
					return nil, err
				}
				for _, c := range cts {
					e.addContract(c)
				}
				e.axioms[p.PkgPath] = append(e.axioms[p.PkgPath], axs...)
			}
		}
	}
	// spec library
	specDir := filepath.Join(verifDir, specSubdir)
	ents, _ := os.ReadDir(specDir)
	var names []string
	for _, en := range ents {
		names = append(names, en.Name())
	}
	sort.Strings(names)
	for _, n := range names {
		full := filepath.Join(specDir, n)
		switch {
		case n == "errflow.spec":
			cts, _, err := parseContractFile(full, "")
			if err != nil {
				return nil, err
			}
			for _, c := range cts {
				c.Assumed = true
				e.errflow[c.Key] = c
			}
		case strings.HasSuffix(n, ".spec"):
			cts, _, err := parseContractFile(full, "")
			if err != nil {
				return nil, err
			}
			for _, c := range cts {
				c.Assumed = true
				e.addContract(c)
			}
		case strings.HasSuffix(n, ".smt2"):
			if err := e.loadSpecSMT(full); err != nil {
				return nil, err
			}
		case strings.HasSuffix(n, ".lemmas"):
			if err := e.loadLemmas(full); err != nil {
				return nil, err
			}
		case n == "sweep.map":
			b, _ := os.ReadFile(full)
			for _, l := range strings.Split(string(b), "\n") {
				fs := strings.Fields(l)
				if len(fs) >= 2 && !strings.HasPrefix(fs[0], "#") {
					e.sweepProps = append(e.sweepProps, sweepRule{fs[0], fs[1:]})
				}
			}
		}
	}
	return e, nil
}

// findSentinelErrors: package-level error variables assigned exactly once,
// in the package initialiser, from errors.New / fmt.Errorf are non-nil.
func (e *Engine) findSentinelErrors() {
	e.nonNilGlobals = map[*ssa.Global]bool{}
	stores := map[*ssa.Global][]*ssa.Store{}
	for _, fn := range e.fns {
		for _, b := range fn.Blocks {
			for _, ins := range b.Instrs {
				if st, ok := ins.(*ssa.Store); ok {
					if g, ok := st.Addr.(*ssa.Global); ok {
						stores[g] = append(stores[g], st)
					}
				}
			}
		}
	}
	for g, sts := range stores {
		if len(sts) != 1 {
			continue
		}
		if !types.Identical(g.Type().(*types.Pointer).Elem(), types.Universe.Lookup("error").Type()) {
			continue
		}
		st := sts[0]
		if st.Parent().Name() != "init" {
			continue
		}
		v := st.Val
		if mi, ok := v.(*ssa.MakeInterface); ok {
			v = mi.X
		}
		if c, ok := v.(*ssa.Call); ok {
			if f := c.Common().StaticCallee(); f != nil {
				switch f.String() {
				case "errors.New", "fmt.Errorf":
					e.nonNilGlobals[g] = true
				}
			}
		}
	}
}

func (e *Engine) addContract(c *Contract) {
	if _, dup := e.contracts[c.Key]; dup {
		e.specErrs = append(e.specErrs, fmt.Sprintf("%s:%d: duplicate contract for %s", c.File, c.Line, c.Key))
	}
	e.contracts[c.Key] = c
	e.ctOrder = append(e.ctOrder, c.Key)
}

// loadSpecSMT reads an SMT-LIB specification file with ;@ directives.
func (e *Engine) loadSpecSMT(path string) error {
	b, err := os.ReadFile(path)
	if err != nil {
		return err
	}
	for ln, line := range strings.Split(string(b), "\n") {
		line = strings.TrimSpace(line)
		if !strings.HasPrefix(line, ";@") {
			continue
		}
		fs := strings.Fields(strings.TrimPrefix(line, ";@"))
		if len(fs) == 0 {
			continue
		}
		switch fs[0] {
		case "region":
			if len(fs) < 3 {
				return fmt.Errorf("%s:%d: bad region", path, ln+1)
			}
			var comps []string
			var decl []string
			for _, tn := range fs[2:] {
				if strings.HasPrefix(tn, "comp:") {
					c := strings.TrimPrefix(tn, "comp:")
					comps = append(comps, c)
					decl = append(decl, fmt.Sprintf("(Reg%s_%s %s)", fs[1], c, e.so.comps[c]))
					continue
				}
				t := e.lookupType(tn, nil)
				if t == nil {
					return fmt.Errorf("%s:%d: unknown type %s", path, ln+1, tn)
				}
				c := e.so.structComp(t)
				comps = append(comps, c)
				decl = append(decl, fmt.Sprintf("(Reg%s_%s %s)", fs[1], strings.TrimPrefix(c, "H_"), e.so.comps[c]))
			}
			e.regions[fs[1]] = comps
			// an uninterpreted sort with accessors (no constructor: equality of two
			// region records never turns into array extensionality reasoning)
			rd := fmt.Sprintf("(declare-sort Reg%s 0)\n", fs[1])
			for _, d := range decl {
				parts := splitSexp(d)
				rd += fmt.Sprintf("(declare-fun %s (Reg%s) %s)\n", parts[0], fs[1], parts[1])
			}
			e.regionDecl = append(e.regionDecl, rd)
			e.regionAcc[fs[1]] = nil
			for _, d := range decl {
				e.regionAcc[fs[1]] = append(e.regionAcc[fs[1]], splitSexp(d)[0])
			}
		case "onstore":
			// ;@onstore iavl.Node.leftNode ghostset inptr
			if len(fs) != 4 || (fs[2] != "ghostset" && fs[2] != "ghostflag") {
				return fmt.Errorf("%s:%d: bad onstore", path, ln+1)
			}
			i := strings.LastIndex(fs[1], ".")
			t := e.lookupType(fs[1][:i], nil)
			if t == nil {
				return fmt.Errorf("%s:%d: unknown type %s", path, ln+1, fs[1][:i])
			}
			si := e.so.structInfo(t)
			if fs[2] == "ghostflag" {
				// G[obj] tracks whether obj.field is non-nil (error-flow layer)
				e.onStoreFlag[e.so.structComp(t)+"."+si.Name+"_"+fs[1][i+1:]] = fs[3]
			} else {
				e.onStore[e.so.structComp(t)+"."+si.Name+"_"+fs[1][i+1:]] = fs[3]
			}
		case "named":
			// ;@named iavl.Node namedN — every program value of type *Node is marked (namedN v)
			t := e.lookupType(fs[1], nil)
			if t == nil {
				return fmt.Errorf("%s:%d: unknown type %s", path, ln+1, fs[1])
			}
			e.named[typeKey(t)] = fs[2]
		case "onalloc":
			// ;@onalloc iavl.Node ghostclear inptr — a fresh object is not in the ghost set
			t := e.lookupType(fs[1], nil)
			if t == nil || len(fs) != 4 {
				return fmt.Errorf("%s:%d: bad onalloc", path, ln+1)
			}
			if fs[2] == "ghostempty" {
				// ;@onalloc sync.Map ghostempty smhas — the ghost set of a fresh object is empty
				e.onAllocEmpty[e.so.structComp(t)] = append(e.onAllocEmpty[e.so.structComp(t)], fs[3])
			} else {
				e.onAlloc[e.so.structComp(t)] = fs[3]
			}
		case "stateinv":
			e.stateInvs = append(e.stateInvs, predApp{Pred: fs[1], Args: fs[2:]})
		case "allocfact":
			// ;@allocfact <comp> <pred> <region>: after a write that only initialises a fresh
			// object of <comp>, pred(region before, region after, na before) holds
			if e.allocFacts == nil {
				e.allocFacts = map[string][2]string{}
			}
			e.allocFacts[fs[1]] = [2]string{fs[2], fs[3]}
		case "storefact":
			t := e.lookupType(fs[1], nil)
			if t == nil {
				return fmt.Errorf("%s:%d: unknown type %s", path, ln+1, fs[1])
			}
			e.storeFacts[e.so.structComp(t)] = predApp{Pred: fs[2], Args: fs[3:]}
		case "ghost":
			rest := strings.TrimSpace(strings.TrimPrefix(strings.TrimPrefix(line, ";@"), " ghost"))
			rest = strings.TrimSpace(strings.TrimPrefix(strings.TrimSpace(rest), "ghost"))
			i := strings.IndexAny(rest, " \t")
			if i < 0 {
				return fmt.Errorf("%s:%d: bad ghost", path, ln+1)
			}
			srt := strings.TrimSpace(rest[i:])
			if strings.HasSuffix(srt, " byvalue") {
				srt = strings.TrimSpace(strings.TrimSuffix(srt, " byvalue"))
				e.ghostByValue[rest[:i]] = true
			}
			e.ghosts[rest[:i]] = srt
		case "const":
			rest := strings.TrimSpace(strings.TrimPrefix(strings.TrimSpace(strings.TrimPrefix(line, ";@")), "const"))
			i := strings.IndexAny(rest, " \t")
			if i < 0 {
				return fmt.Errorf("%s:%d: bad const", path, ln+1)
			}
			e.specConsts[rest[:i]] = strings.TrimSpace(rest[i:])
		case "specfn":
			// ;@specfn name [regions] : sorts -> result
			rest := strings.TrimSpace(strings.TrimPrefix(strings.TrimSpace(strings.TrimPrefix(line, ";@")), "specfn"))
			ci := strings.Index(rest, " : ") + 1
			ai := strings.LastIndex(rest, "->")
			if ci < 0 || ai < 0 {
				return fmt.Errorf("%s:%d: bad specfn", path, ln+1)
			}
			head := strings.Fields(rest[:ci])
			sf := &SpecFn{Regions: head[1:], Result: strings.TrimSpace(rest[ai+2:])}
			args := strings.TrimSpace(rest[ci+1 : ai])
			if args != "" {
				sf.ArgSorts = splitSexp("(" + args + ")")
			}
			e.specFns[head[0]] = sf
		}
	}
	e.specText += "; ---- " + filepath.Base(path) + " ----\n" + fuelRewrite(string(b), e.opaqueDefs) + "\n"
	return nil
}

// loadLemmas reads lemma blocks:
//   ;@lemma name props C01 C02
//   <smt commands: declare-const, assert …, the negated goal>
//   ;@end
func (e *Engine) loadLemmas(path string) error {
	b, err := os.ReadFile(path)
	if err != nil {
		return err
	}
	var cur *Lemma
	for _, line := range strings.Split(string(b), "\n") {
		tl := strings.TrimSpace(line)
		if strings.HasPrefix(tl, ";@lemma") {
			fs := strings.Fields(strings.TrimPrefix(tl, ";@lemma"))
			cur = &Lemma{Name: fs[0], File: path}
			mode := ""
			for _, f := range fs[1:] {
				if f == "props" || f == "reveal" || f == "uses" || f == "proves" {
					mode = f
					continue
				}
				if mode == "props" {
					cur.Props = append(cur.Props, f)
				} else if mode == "reveal" {
					cur.Reveal = append(cur.Reveal, f)
				} else if mode == "uses" {
					cur.Uses = append(cur.Uses, f)
				} else if mode == "proves" {
					cur.Proves = append(cur.Proves, f)
				}
			}
			continue
		}
		if strings.HasPrefix(tl, ";@provides") && cur != nil {
			cur.Provides += strings.TrimSpace(strings.TrimPrefix(tl, ";@provides")) + "\n"
			continue
		}
		if strings.HasPrefix(tl, ";@end") {
			if cur != nil {
				for _, u := range cur.Uses {
					found := false
					for _, l2 := range e.lemmas { // only lemmas that come earlier
						if l2.Name == u && l2.Provides != "" {
							cur.UsesText += "; ---- uses " + u + " ----\n" + l2.Provides
							found = true
						}
					}
					if !found {
						cur.BadCite = u
					}
				}
				e.lemmas = append(e.lemmas, cur)
			}
			cur = nil
			continue
		}
		if cur != nil {
			cur.Body += line + "\n"
		}
	}
	return nil
}

func (e *Engine) lookupType(name string, cur *types.Package) types.Type {
	name = strings.TrimPrefix(name, "*")
	pkgName, tn := "", name
	if i := strings.LastIndex(name, "."); i >= 0 {
		pkgName, tn = name[:i], name[i+1:]
	}
	try := func(p *types.Package) types.Type {
		if p == nil {
			return nil
		}
		if obj := p.Scope().Lookup(tn); obj != nil {
			if t, ok := obj.(*types.TypeName); ok {
				return t.Type()
			}
		}
		return nil
	}
	if pkgName == "" {
		return try(cur)
	}
	if p, ok := e.allPkgs[pkgName]; ok {
		return try(p)
	}
	if p := e.pkgByName(pkgName, cur); p != nil {
		return try(p)
	}
	return nil
}

func (e *Engine) pkgByName(name string, cur *types.Package) *types.Package {
	if cur != nil {
		for _, imp := range cur.Imports() {
			if imp.Name() == name {
				return imp
			}
		}
	}
	// short names of repository packages
	var cands []*types.Package
	for path, p := range e.allPkgs {
		if p.Name() == name || shortPkg(p) == name {
			if strings.HasPrefix(path, "github.com/cosmos/iavl") {
				cands = append([]*types.Package{p}, cands...)
			} else {
				cands = append(cands, p)
			}
		}
	}
	if len(cands) > 0 {
		// prefer the shortest path for determinism
		sort.SliceStable(cands, func(i, j int) bool {
			ai := strings.HasPrefix(cands[i].Path(), "github.com/cosmos/iavl")
			aj := strings.HasPrefix(cands[j].Path(), "github.com/cosmos/iavl")
			if ai != aj {
				return ai
			}
			if len(cands[i].Path()) != len(cands[j].Path()) {
				return len(cands[i].Path()) < len(cands[j].Path())
			}
			return cands[i].Path() < cands[j].Path()
		})
		return cands[0]
	}
	return nil
}

// pkgOfKey: the package a contract key belongs to.
func (e *Engine) pkgOfKey(key string) *types.Package {
	if fn, ok := e.fns[key]; ok {
		if fn.Pkg != nil {
			return fn.Pkg.Pkg
		}
		if fn.Parent() != nil && fn.Parent().Pkg != nil {
			return fn.Parent().Pkg.Pkg
		}
	}
	k := strings.TrimPrefix(strings.TrimPrefix(key, "("), "*")
	// longest package path prefix
	best := ""
	for path := range e.allPkgs {
		if strings.HasPrefix(k, path+".") && len(path) > len(best) {
			best = path
		}
	}
	if best != "" {
		return e.allPkgs[best]
	}
	return nil
}

// sigOfKey finds the signature of an external function or interface method.
func (e *Engine) sigOfKey(key string) *types.Signature {
	if fn, ok := e.fns[key]; ok {
		return fn.Signature
	}
	pkg := e.pkgOfKey(key)
	if pkg == nil {
		return nil
	}
	k := key
	if strings.HasPrefix(k, "(") {
		// (pkg.T).M or (*pkg.T).M
		i := strings.Index(k, ").")
		recv := strings.TrimPrefix(strings.TrimPrefix(k[1:i], "*"), pkg.Path()+".")
		m := k[i+2:]
		obj := pkg.Scope().Lookup(recv)
		if obj == nil {
			return nil
		}
		ms := types.NewMethodSet(types.NewPointer(obj.Type()))
		if _, isI := obj.Type().Underlying().(*types.Interface); isI {
			ms = types.NewMethodSet(obj.Type())
		}
		for j := 0; j < ms.Len(); j++ {
			if ms.At(j).Obj().Name() == m {
				sig := ms.At(j).Obj().Type().(*types.Signature)
				// attach receiver for parameter typing
				return types.NewSignatureType(types.NewVar(0, pkg, "recv", ms.At(j).Recv()), nil, nil, sig.Params(), sig.Results(), sig.Variadic())
			}
		}
		return nil
	}
	name := strings.TrimPrefix(k, pkg.Path()+".")
	if obj := pkg.Scope().Lookup(name); obj != nil {
		if s, ok := obj.Type().(*types.Signature); ok {
			return s
		}
	}
	return nil
}

// axiomPkgs: the package itself and the repository packages it imports.
func (e *Engine) axiomPkgs(p *types.Package) []string {
	seen := map[string]bool{}
	var out []string
	var walk func(q *types.Package)
	walk = func(q *types.Package) {
		if seen[q.Path()] {
			return
		}
		seen[q.Path()] = true
		if _, ok := e.axioms[q.Path()]; ok {
			out = append(out, q.Path())
		}
		for _, i := range q.Imports() {
			if strings.HasPrefix(i.Path(), "github.com/cosmos/iavl") {
				walk(i)
			}
		}
	}
	walk(p)
	sort.Strings(out)
	return out
}

func (e *Engine) newExec(fn *ssa.Function, ct *Contract) *Exec {
	return &Exec{eng: e, so: e.so, declared: map[string]bool{}, fn: fn, ct: ct, entryComps: map[string]string{}, cellClo: map[string]*closure{}, notes: map[string]bool{}, nameCount: map[string]int{}, regCache: map[string]string{}, symNa: map[string]string{}}
}

// FuncResult: the obligations generated for one function.
type FuncResult struct {
	Func     string
	Contract *Contract
	Obls     []*Obligation
	Cmds     []string
	Extra    string // revealed definitions of opaque spec functions
	CmdTag   []int
	Anc      [][]bool // Anc[b][a]: block a can reach block b
	Notes    []string
	Sweep    bool
}

// verifyFunc generates the obligations of one function.
// verifyErrflow checks the error-flow contract of a function: a storage
// failure during the call (ghost fault) must surface in the error result.
// Data is abstracted: every call havocs the heap.
func (e *Engine) verifyErrflow(fn *ssa.Function, props []string) *FuncResult {
	ct := e.errflow[fn.String()]
	if ct == nil {
		ct = e.genericErrflow(fn)
	}
	if ct == nil {
		return nil
	}
	return e.verifyFuncMode(fn, ct, false, props, true)
}

// genericErrflow synthesises the generic contract.
func (e *Engine) genericErrflow(fn *ssa.Function) *Contract {
	ct := &Contract{Key: fn.String(), Loops: map[int]*LoopSpec{}, NoSafety: true, Props: []string{"C17"}, HasMod: true}
	for _, p := range fn.Params {
		ct.Params = append(ct.Params, p.Name())
	}
	res := fn.Signature.Results()
	errIdx := -1
	for i := 0; i < res.Len(); i++ {
		ct.Results = append(ct.Results, fmt.Sprintf("r%d", i))
		if types.Identical(res.At(i).Type(), types.Universe.Lookup("error").Type()) {
			errIdx = i
		}
	}
	if errIdx >= 0 {
		ct.Ensures = append(ct.Ensures, Clause{Label: "errflow", Text: fmt.Sprintf("!old(fault) && fault ==> r%d != nil", errIdx), File: "(generic)"})
	} else {
		ct.Ensures = append(ct.Ensures, Clause{Label: "nofault", Text: "old(fault) == fault", File: "(generic)"})
	}
	ct.Modifies = []string{"fault", "parked"}
	return ct
}

func (e *Engine) verifyFunc(fn *ssa.Function, ct *Contract, sweep bool, props []string) (res *FuncResult) {
	return e.verifyFuncMode(fn, ct, sweep, props, false)
}

func (e *Engine) verifyFuncMode(fn *ssa.Function, ct *Contract, sweep bool, props []string, errflow bool) (res *FuncResult) {
	x := e.newExec(fn, ct)
	x.errflow = errflow
	x.propsOver = props
	x.sweep = sweep
	res = &FuncResult{Func: fn.String(), Contract: ct, Sweep: sweep}
	defer func() {
		if r := recover(); r != nil {
			res.Notes = append(res.Notes, fmt.Sprintf("ENGINE PANIC: %v", r))
			res.Obls = nil
			if os.Getenv("GOVC_DEBUG") != "" {
				panic(r)
			}
		}
	}()
	if ct == nil {
		ct = &Contract{Key: fn.String(), Loops: map[int]*LoopSpec{}}
		for _, p := range fn.Params {
			ct.Params = append(ct.Params, p.Name())
		}
		x.ct = ct
	}
	x.noSafety = ct.NoSafety
	x.entryNa = "na_in"
	x.declare("na_in", "Int")
	x.assume("", "(>= na_in 1)")
	st0 := &State{x: x, m: map[string]string{}, na: "na_in"}
	fr := &frame{fn: fn, vals: map[ssa.Value]sval{}, prefix: "", top: true}
	x.inlineStk = []*ssa.Function{fn}
	x.paramEnv = map[string]TVal{}
	for i, p := range fn.Params {
		s := "p_" + sanitize(p.Name())
		if x.declared[s] {
			s = s + "_" + strconv.Itoa(i)
		}
		x.declare(s, e.so.sortOf(p.Type()))
		for _, f := range e.so.typeFacts(s, p.Type(), "na_in") {
			x.assume("", f)
		}
		fr.vals[p] = sval{t: s}
		x.markNamed(s, p.Type())
		name := p.Name()
		if i < len(ct.Params) {
			name = ct.Params[i]
		}
		x.paramEnv[name] = TVal{T: s, Sort: e.so.sortOf(p.Type()), Ty: p.Type()}
	}
	for _, fv := range fn.FreeVars {
		s := "fv_" + sanitize(fv.Name())
		x.declare(s, e.so.sortOf(fv.Type()))
		for _, f := range e.so.typeFacts(s, fv.Type(), "na_in") {
			x.assume("", f)
		}
		fr.vals[fv] = sval{t: s}
		x.paramEnv[fv.Name()] = TVal{T: s, Sort: e.so.sortOf(fv.Type()), Ty: fv.Type()}
	}
	// calls("<target>"): number of calls of <target> made so far by this activation (a private counter)
	x.callCount = map[string]string{}
	x.accWant = map[string]accSpec{}
	for _, txt := range ct.allClauseTexts() {
		for _, m := range allokRe.FindAllStringSubmatch(txt, -1) {
			if _, ok := x.accWant[m[1]]; !ok {
				comp := "L_allok_" + sanitize(m[1])
				e.so.addComp(comp, "Bool")
				i, _ := strconv.Atoi(m[2])
				x.accWant[m[1]] = accSpec{idx: i, comp: comp}
				st0.m[comp] = x.define("allok0", "Bool", "true")
			}
		}
	}
	x.resultWant = map[string]bool{}
	x.callResults = map[string]capturedCall{}
	for _, txt := range ct.allClauseTexts() {
		for _, m := range resultRe.FindAllStringSubmatch(txt, -1) {
			x.resultWant[m[1]] = true
		}
		for _, m := range callsRe.FindAllStringSubmatch(txt, -1) {
			if _, ok := x.callCount[m[1]]; !ok {
				comp := "L_calls_" + sanitize(m[1])
				e.so.addComp(comp, "Int")
				x.callCount[m[1]] = comp
				st0.m[comp] = x.define("calls0", "Int", "0")
			}
		}
	}
	x.assumeStateInvs(st0, "")
	env := x.baseEnv(fr, st0, st0)
	if env.pkg != nil && !strings.HasPrefix(fn.Name(), "init") {
		// global invariants (established by package initialisation, listed as assumptions)
		for _, ps := range e.axiomPkgs(env.pkg) {
			for _, ax := range e.axioms[ps] {
				aenv := *env
				aenv.pkg = e.allPkgs[ps]
				t, err := aenv.trClause(ax.Text)
				if err != nil {
					e.specError(ax, err)
					continue
				}
				x.assume("", t)
			}
		}
	}
	x.bindLetsTop(ct, env)
	x.topEnv = env
	for _, r := range ct.Requires {
		t, err := env.trClause(r.Text)
		if err != nil {
			e.specError(r, err)
			continue
		}
		x.assume("", t)
	}
	if len(ct.Requires) > 0 {
		x.obls = append(x.obls, &Obligation{Name: fn.String() + "#vacuity:requires", Kind: "vacuity", Func: fn.String(), Idx: len(x.cmds), Guard: "true", Goal: "false", Vacuity: true, Props: ct.Props, Desc: "precondition is satisfiable"})
	}
	x.curBlock = -1
	_, _, reachRet := x.execBody(fr, st0, "true")
	x.curBlock = -1
	res.Anc = cfgAncestors(fn)
	if reachRet != "false" {
		var rts []types.Type
		for i := 0; i < fn.Signature.Results().Len(); i++ {
			rts = append(rts, fn.Signature.Results().At(i).Type())
		}
		// one environment per return site
		var posts []*Env
		for _, r := range x.topRets {
			post := x.baseEnv(fr, r.st, st0)
			for k, v := range env.vars {
				post.vars[k] = v
			}
			for i, rv := range r.vals {
				if i < len(ct.Results) {
					post.vars[ct.Results[i]] = TVal{T: rv.t, Sort: e.so.sortOf(rts[i]), Ty: rts[i]}
				} else if nm := fn.Signature.Results().At(i).Name(); nm != "" {
					post.vars[nm] = TVal{T: rv.t, Sort: e.so.sortOf(rts[i]), Ty: rts[i]}
				}
			}
			if len(r.vals) == 1 {
				post.vars["result"] = TVal{T: r.vals[0].t, Sort: e.so.sortOf(rts[0]), Ty: rts[0]}
			}
			posts = append(posts, post)
		}
		for i, en := range ct.Ensures {
			lab := en.Label
			if lab == "" {
				lab = strconv.Itoa(i + 1)
			}
			var cases []oblCase
			bad := false
			for k, r := range x.topRets {
				t, err := posts[k].trClause(en.Text)
				if err != nil {
					e.specError(en, err)
					bad = true
					break
				}
				// "err == nil ==> ..." is trivially true at a return site inside "if err != nil { return ..., err }"
				trivial := false
				for i := range r.nonNil {
					if i < len(r.vals) && (strings.HasPrefix(t, "(=> (= "+r.vals[i].t+" 0) ") || strings.HasPrefix(t, "(=> (and (= "+r.vals[i].t+" 0) ") || strings.HasPrefix(t, "(=> (and (and (= "+r.vals[i].t+" 0) ") || strings.HasPrefix(t, "(=> (and (and (and (= "+r.vals[i].t+" 0) ")) {
						trivial = true
					}
				}
				if trivial {
					x.assume(r.cond, t)
					continue
				}
				cases = append(cases, oblCase{Idx: len(x.cmds), Guard: r.cond, Goal: t, Block: r.block})
			}
			if bad {
				continue
			}
			// postconditions are proved in order; earlier ones may be used for later ones
			x.obligeCases("post", lab, cases, "postcondition: "+en.Text, fn.Pos())
		}
		if !sweep && !errflow {
			x.frameCases(ct, posts, st0)
		}
		if errflow {
			x.frameCasesOnly(ct, posts, st0, "G_parked")
		}
	}
	if !sweep && !errflow {
		for _, c := range ct.Callsites {
			lbl := c.Label
			if lbl == "" {
				lbl = fmt.Sprintf("L%d", c.Line)
			}
			if x.nameCount[fmt.Sprintf("callsite-hit:%d", c.Line)] == 0 {
				// the call the clause speaks about is not in the body (any more): the clause's
				// obligation cannot be discharged — on the unchanged tree this shows up as a
				// never-claimed obligation (a mistake in the contract), after a change as a violation
				x.note("callsite clause matches no call: " + c.Target + " [" + lbl + "]")
				x.obligeCasesIdx("callsite", lbl, []oblCase{{Guard: "true", Goal: "false", Idx: 0}}, "call-site condition of "+c.Target+": the call is missing", fn.Pos(), true)
				continue
			}
			before := len(x.obls)
			x.obligeCasesIdx("callsite", lbl, x.csCases[c.Line], "call-site condition of "+c.Target+": "+c.Text, fn.Pos(), true)
			// in the order in which obligations depend on each other the clause sits where its first call site is
			if len(x.obls) == before+1 {
				x.obls[before].Seq = x.csSeq[c.Line]
			}
		}
	}
	for _, r := range ct.Reveal {
		ax, ok := e.opaqueDefs[r]
		if !ok {
			e.specErrs = append(e.specErrs, fmt.Sprintf("%s:%d: reveal of unknown opaque function %s", ct.File, ct.Line, r))
			continue
		}
		res.Extra += ax
	}
	res.Obls = x.obls
	res.Cmds = x.cmds
	res.CmdTag = x.cmdTag
	for n := range x.notes {
		res.Notes = append(res.Notes, n)
	}
	sort.Strings(res.Notes)
	return res
}

// cfgAncestors: Anc[b][a] is true iff block a can reach block b (or a == b).
func cfgAncestors(fn *ssa.Function) [][]bool {
	n := len(fn.Blocks)
	anc := make([][]bool, n)
	for b := 0; b < n; b++ {
		anc[b] = make([]bool, n)
		stack := []*ssa.BasicBlock{fn.Blocks[b]}
		anc[b][b] = true
		for len(stack) > 0 {
			c := stack[len(stack)-1]
			stack = stack[:len(stack)-1]
			for _, p := range c.Preds {
				if !anc[b][p.Index] {
					anc[b][p.Index] = true
					stack = append(stack, p)
				}
			}
		}
	}
	return anc
}

func (x *Exec) bindLetsTop(ct *Contract, env *Env) {
	for _, l := range ct.Lets {
		tv, err := env.trTerm(l.Text)
		if err != nil {
			x.eng.specError(l, err)
			continue
		}
		env.vars[l.Label] = tv
		x.paramEnv[l.Label] = tv
	}
}

// prelude assembles everything that precedes the function-specific commands.
func (e *Engine) prelude() string {
	var sb strings.Builder
	sb.WriteString(basePrelude)
	sb.WriteString(extraPrelude)
	sb.WriteString(e.so.datatypeDecls())
	for _, d := range e.regionDecl {
		sb.WriteString(d + "\n")
	}
	var ros []string
	for s := range e.rowOps {
		ros = append(ros, s)
	}
	sort.Strings(ros)
	for _, s := range ros {
		es := sanitize(s)
		fmt.Fprintf(&sb, "(declare-fun appendRow_%s ((Array Int %s) Int Int (Array Int %s) Int Int) (Array Int %s))\n", es, s, s, s)
		fmt.Fprintf(&sb, "(assert (forall ((a (Array Int %s)) (ao Int) (al Int) (b (Array Int %s)) (bo Int) (bl Int) (i Int)) (! (and (=> (and (<= 0 i) (< i al)) (= (select (appendRow_%s a ao al b bo bl) i) (select a (+ ao i)))) (=> (and (<= al i) (< i (+ al bl))) (= (select (appendRow_%s a ao al b bo bl) i) (select b (+ bo (- i al)))))) :pattern ((select (appendRow_%s a ao al b bo bl) i)))))\n", s, s, es, es, es)
		fmt.Fprintf(&sb, "(declare-fun copyRow_%s ((Array Int %s) Int (Array Int %s) Int Int) (Array Int %s))\n", es, s, s, s)
		fmt.Fprintf(&sb, "(assert (forall ((d (Array Int %s)) (do Int) (s (Array Int %s)) (so Int) (n Int) (i Int)) (! (= (select (copyRow_%s d do s so n) i) (ite (and (<= do i) (< i (+ do n))) (select s (+ so (- i do))) (select d i))) :pattern ((select (copyRow_%s d do s so n) i)))))\n", s, s, es, es)
	}
	var mcs []string
	for k := range e.mapCards {
		mcs = append(mcs, k)
	}
	sort.Strings(mcs)
	for _, k := range mcs {
		fmt.Fprintf(&sb, "(declare-fun mapcard_%s ((Array %s Bool)) Int)\n", k, e.mapCards[k])
	}
	sb.WriteString(e.specText)
	return sb.String()
}

const extraPrelude = `(declare-fun rowShift ((Array Int Int) Int) (Array Int Int))
(assert (forall ((a (Array Int Int)) (o Int) (i Int)) (! (= (select (rowShift a o) i) (select a (+ o i))) :pattern ((select (rowShift a o) i)))))
(assert (forall ((a (Array Int Int)) (o Int) (n Int)) (! (= (ordRow (rowShift a o) 0 n) (ordRow a o n)) :pattern ((ordRow (rowShift a o) 0 n)))))
(define-fun streq ((bm (Array Int (Array Int Int))) (a Slice) (b Slice)) Bool (and (= (s_len a) (s_len b)) (= (ordRow (select bm (s_base a)) (s_off a) (s_len a)) (ordRow (select bm (s_base b)) (s_off b) (s_len b)))))
(declare-fun pow2 (Int) Int)
(declare-fun bitand (Int Int) Int)
(declare-fun bitor (Int Int) Int)
(declare-fun bitxor (Int Int) Int)
(declare-fun bitandnot (Int Int) Int)
(declare-fun unboxInt (Int) Int)
(declare-fun unboxBool (Int) Bool)
(declare-fun unboxSlice (Int) Slice)
(declare-fun implements (Int Int) Bool)
; the empty content is the least element of the content order
(assert (forall ((a (Array Int Int)) (o Int)) (! (= (ordRow a o 0) 0.0) :pattern ((ordRow a o 0)))))
(assert (forall ((a (Array Int Int)) (o Int) (n Int)) (! (=> (> n 0) (> (ordRow a o n) 0.0)) :pattern ((ordRow a o n)))))
`
