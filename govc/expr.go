package main

// expr.go — translation of contract expressions (Go expression syntax with
// ==>, old(), forall(), spec-function calls) to SMT-LIB terms.

import (
	"fmt"
	"go/ast"
	"go/parser"
	"go/token"
	"go/types"
	"strconv"
	"strings"
)

// TVal is a translated expression: SMT term, its sort, and (if known) its
// Go type.
type TVal struct {
	T    string
	Sort string
	Ty   types.Type
}

// Env is the environment of a contract expression.
type Env struct {
	x     *Exec
	vars  map[string]TVal
	st    *State // current state
	old   *State // pre-state (nil if none)
	bound map[string]string
	pkg   *types.Package
	errs  *[]string
}

func (e *Env) clone() *Env {
	n := *e
	n.vars = map[string]TVal{}
	for k, v := range e.vars {
		n.vars[k] = v
	}
	n.bound = map[string]string{}
	for k, v := range e.bound {
		n.bound[k] = v
	}
	return &n
}

func (e *Env) fail(format string, args ...interface{}) TVal {
	msg := fmt.Sprintf(format, args...)
	if e.errs != nil {
		*e.errs = append(*e.errs, msg)
	}
	return TVal{T: "false", Sort: "Bool"}
}

// trClause parses and translates a clause text to a Bool term.
func (e *Env) trClause(text string) (string, error) {
	var errs []string
	e.errs = &errs
	src := rewriteImplies(text)
	ex, err := parser.ParseExpr(src)
	if err != nil {
		return "", fmt.Errorf("parse %q: %v", src, err)
	}
	v := e.tr(ex)
	if len(errs) > 0 {
		return "", fmt.Errorf("%s: %s", text, strings.Join(errs, "; "))
	}
	if v.Sort != "Bool" && v.Sort != "?" {
		return "", fmt.Errorf("%s: clause is not boolean (sort %s)", text, v.Sort)
	}
	return v.T, nil
}

func (e *Env) trTerm(text string) (TVal, error) {
	var errs []string
	e.errs = &errs
	src := rewriteImplies(text)
	ex, err := parser.ParseExpr(src)
	if err != nil {
		return TVal{}, fmt.Errorf("parse %q: %v", src, err)
	}
	v := e.tr(ex)
	if len(errs) > 0 {
		return TVal{}, fmt.Errorf("%s: %s", text, strings.Join(errs, "; "))
	}
	return v, nil
}

func isSliceSort(v TVal) bool { return v.Sort == "Slice" }

func (e *Env) tr(ex ast.Expr) TVal {
	switch n := ex.(type) {
	case *ast.ParenExpr:
		return e.tr(n.X)
	case *ast.BasicLit:
		switch n.Kind {
		case token.INT:
			s := n.Value
			if strings.HasPrefix(s, "0x") || strings.HasPrefix(s, "0X") {
				u, err := strconv.ParseUint(s[2:], 16, 64)
				if err != nil {
					return e.fail("bad literal %s", s)
				}
				s = strconv.FormatUint(u, 10)
			}
			return TVal{T: s, Sort: "Int"}
		case token.STRING:
			// the same constant object the code uses for this literal
			sv, err := strconv.Unquote(n.Value)
			if err != nil {
				return e.fail("bad string literal %s", n.Value)
			}
			return TVal{T: e.x.eng.stringConst(e.x, sv), Sort: "Slice", Ty: types.Typ[types.String]}
		}
		return e.fail("unsupported literal %s", n.Value)
	case *ast.Ident:
		return e.trIdent(n.Name)
	case *ast.UnaryExpr:
		x := e.tr(n.X)
		switch n.Op {
		case token.NOT:
			return TVal{T: "(not " + x.T + ")", Sort: "Bool"}
		case token.SUB:
			return TVal{T: "(- " + x.T + ")", Sort: x.Sort}
		}
		return e.fail("unsupported unary op %s", n.Op)
	case *ast.BinaryExpr:
		return e.trBinary(n)
	case *ast.SelectorExpr:
		return e.trSelector(n)
	case *ast.IndexExpr:
		x := e.tr(n.X)
		i := e.tr(n.Index)
		if x.Sort == "Slice" {
			var et types.Type
			if x.Ty != nil {
				switch u := x.Ty.Underlying().(type) {
				case *types.Slice:
					et = u.Elem()
				case *types.Basic:
					et = types.Typ[types.Uint8]
				}
			}
			if et == nil {
				et = types.Typ[types.Uint8]
			}
			comp := e.x.so.elemComp(et)
			return TVal{T: "(select (select " + e.st.get(comp) + " (s_base " + x.T + ")) (idx (s_off " + x.T + ") " + i.T + "))", Sort: e.x.so.sortOf(et), Ty: et}
		}
		if strings.HasPrefix(x.Sort, "(Array") {
			// ghost array or array value
			es := "?"
			parts := splitSexp(x.Sort)
			if len(parts) == 3 {
				es = parts[2]
			}
			var et types.Type
			if x.Ty != nil {
				if a, ok := x.Ty.Underlying().(*types.Array); ok {
					et = a.Elem()
				}
			}
			return TVal{T: "(select " + x.T + " " + i.T + ")", Sort: es, Ty: et}
		}
		if x.Ty != nil {
			if m, ok := x.Ty.Underlying().(*types.Map); ok {
				// Go semantics: an absent key reads as the zero value
				mv, mp := e.x.so.mapComp(m)
				return TVal{T: "(ite (select (select " + e.st.get(mp) + " " + x.T + ") " + i.T + ") (select (select " + e.st.get(mv) + " " + x.T + ") " + i.T + ") " + e.x.so.zeroOf(m.Elem()) + ")", Sort: e.x.so.sortOf(m.Elem()), Ty: m.Elem()}
			}
		}
		return e.fail("cannot index %s of sort %s", x.T, x.Sort)
	case *ast.CallExpr:
		return e.trCall(n)
	case *ast.SliceExpr:
		x := e.tr(n.X)
		if x.Sort != "Slice" {
			return e.fail("slice expression on non-slice")
		}
		lo := "0"
		if n.Low != nil {
			lo = e.tr(n.Low).T
		}
		hi := "(s_len " + x.T + ")"
		if n.High != nil {
			hi = e.tr(n.High).T
		}
		return TVal{T: "(mkS (s_base " + x.T + ") (+ (s_off " + x.T + ") " + lo + ") (- " + hi + " " + lo + ") (- (s_cap " + x.T + ") " + lo + "))", Sort: "Slice", Ty: x.Ty}
	case *ast.StarExpr:
		x := e.tr(n.X)
		if x.Ty != nil {
			if p, ok := x.Ty.Underlying().(*types.Pointer); ok {
				if _, isStruct := p.Elem().Underlying().(*types.Struct); isStruct {
					comp := e.x.so.structComp(p.Elem())
					return TVal{T: "(select " + e.st.get(comp) + " " + x.T + ")", Sort: e.x.so.sortOf(p.Elem()), Ty: p.Elem()}
				}
				comp := e.x.so.cellComp(p.Elem())
				return TVal{T: "(select " + e.st.get(comp) + " " + x.T + ")", Sort: e.x.so.sortOf(p.Elem()), Ty: p.Elem()}
			}
		}
		return e.fail("cannot dereference %s", x.T)
	}
	return e.fail("unsupported expression %T", ex)
}

func splitSexp(s string) []string {
	s = strings.TrimSpace(s)
	if !strings.HasPrefix(s, "(") {
		return []string{s}
	}
	s = s[1 : len(s)-1]
	var out []string
	depth := 0
	start := -1
	for i := 0; i < len(s); i++ {
		c := s[i]
		if c == '(' {
			if depth == 0 && start < 0 {
				start = i
			}
			depth++
		} else if c == ')' {
			depth--
			if depth == 0 {
				out = append(out, s[start:i+1])
				start = -1
			}
		} else if c == ' ' {
			if depth == 0 && start >= 0 {
				out = append(out, s[start:i])
				start = -1
			}
		} else if start < 0 {
			start = i
		}
	}
	if start >= 0 {
		out = append(out, s[start:])
	}
	return out
}

func (e *Env) trIdent(name string) TVal {
	switch name {
	case "true":
		return TVal{T: "true", Sort: "Bool"}
	case "false":
		return TVal{T: "false", Sort: "Bool"}
	case "nil":
		return TVal{T: "0", Sort: "nil"}
	case "na":
		return TVal{T: e.st.na, Sort: "Int"}
	}
	if s, ok := e.bound[name]; ok {
		return TVal{T: name, Sort: s}
	}
	if v, ok := e.vars[name]; ok {
		return v
	}
	// ghost component
	if g, ok := e.x.eng.ghosts[name]; ok {
		return TVal{T: e.st.get("G_" + name), Sort: g}
	}
	// spec constant
	if c, ok := e.x.eng.specConsts[name]; ok {
		return TVal{T: name, Sort: c}
	}
	// package-level variable / constant
	if e.pkg != nil {
		if obj := e.pkg.Scope().Lookup(name); obj != nil {
			return e.trObject(obj)
		}
	}
	return e.fail("unknown identifier %s", name)
}

func (e *Env) trObject(obj types.Object) TVal {
	switch o := obj.(type) {
	case *types.Const:
		if s := o.Val().ExactString(); s != "" {
			if _, err := strconv.ParseInt(s, 10, 64); err == nil {
				if strings.HasPrefix(s, "-") {
					return TVal{T: "(- " + s[1:] + ")", Sort: "Int", Ty: o.Type()}
				}
				return TVal{T: s, Sort: "Int", Ty: o.Type()}
			}
			if _, err := strconv.ParseUint(s, 10, 64); err == nil {
				return TVal{T: s, Sort: "Int", Ty: o.Type()}
			}
			if s == "true" || s == "false" {
				return TVal{T: s, Sort: "Bool", Ty: o.Type()}
			}
		}
		return e.fail("unsupported constant %s", o.Name())
	case *types.Var:
		comp := e.x.so.globalComp(o.Pkg().Path()+"."+o.Name(), o.Type())
		return TVal{T: e.st.get(comp), Sort: e.x.so.sortOf(o.Type()), Ty: o.Type()}
	}
	return e.fail("unsupported object %s", obj.Name())
}

func (e *Env) nilFor(v TVal) string {
	if v.Sort == "Slice" {
		return "nilS"
	}
	return "0"
}

func (e *Env) eq(a, b TVal) string {
	if a.Sort == "nil" && b.Sort == "nil" {
		return "true"
	}
	if a.Sort == "nil" {
		a, b = b, a
	}
	if b.Sort == "nil" {
		if a.Sort == "Slice" {
			return "(= (s_base " + a.T + ") 0)"
		}
		return "(= " + a.T + " 0)"
	}
	return "(= " + a.T + " " + b.T + ")"
}

func (e *Env) trBinary(n *ast.BinaryExpr) TVal {
	a := e.tr(n.X)
	b := e.tr(n.Y)
	bin := func(op string, srt string) TVal {
		return TVal{T: "(" + op + " " + a.T + " " + b.T + ")", Sort: srt}
	}
	switch n.Op {
	case token.LAND:
		return bin("and", "Bool")
	case token.LOR:
		return bin("or", "Bool")
	case token.EQL:
		return TVal{T: e.eq(a, b), Sort: "Bool"}
	case token.NEQ:
		return TVal{T: "(not " + e.eq(a, b) + ")", Sort: "Bool"}
	case token.LSS:
		return bin("<", "Bool")
	case token.LEQ:
		return bin("<=", "Bool")
	case token.GTR:
		return bin(">", "Bool")
	case token.GEQ:
		return bin(">=", "Bool")
	case token.ADD:
		return bin("+", a.Sort)
	case token.SUB:
		return bin("-", a.Sort)
	case token.MUL:
		return bin("*", a.Sort)
	case token.QUO:
		if a.Sort == "Real" {
			return bin("/", "Real")
		}
		return bin("div", "Int")
	case token.REM:
		return bin("mod", "Int")
	}
	return e.fail("unsupported binary op %s", n.Op)
}

func (e *Env) trSelector(n *ast.SelectorExpr) TVal {
	// package-qualified name?
	if id, ok := n.X.(*ast.Ident); ok {
		if _, isVar := e.vars[id.Name]; !isVar {
			if _, isB := e.bound[id.Name]; !isB {
				if p := e.x.eng.pkgByName(id.Name, e.pkg); p != nil {
					if obj := p.Scope().Lookup(n.Sel.Name); obj != nil {
						return e.trObject(obj)
					}
					return e.fail("unknown %s.%s", id.Name, n.Sel.Name)
				}
			}
		}
	}
	x := e.tr(n.X)
	if x.Sort == "Slice" {
		switch n.Sel.Name {
		case "off":
			return TVal{T: "(s_off " + x.T + ")", Sort: "Int"}
		case "base":
			return TVal{T: "(s_base " + x.T + ")", Sort: "Int"}
		case "len":
			return TVal{T: "(s_len " + x.T + ")", Sort: "Int"}
		case "cap":
			return TVal{T: "(s_cap " + x.T + ")", Sort: "Int"}
		}
	}
	if x.Ty == nil {
		return e.fail("selector %s on value of unknown type (%s)", n.Sel.Name, x.T)
	}
	return e.field(x, n.Sel.Name)
}

// field resolves x.name where x is a pointer to struct or a struct value,
// following embedded fields.
func (e *Env) field(x TVal, name string) TVal {
	t := x.Ty
	isPtr := false
	if p, ok := t.Underlying().(*types.Pointer); ok {
		t = p.Elem()
		isPtr = true
	}
	st, ok := t.Underlying().(*types.Struct)
	if !ok {
		return e.fail("field %s of non-struct %s", name, t)
	}
	si := e.x.so.structInfo(t)
	base := x.T
	if isPtr {
		comp := e.x.so.structComp(t)
		base = "(select " + e.st.get(comp) + " " + x.T + ")"
	}
	for i, f := range si.Fields {
		if f.Name == name {
			term := "(" + f.Acc + " " + base + ")"
			if isPtr && len(e.bound) == 0 && f.Sort == "Slice" && e.st != nil {
				// heap typing: a slice or string stored in the heap was allocated before it was stored
				e.x.assume("", "(< (s_base "+term+") "+e.st.na+")")
			}
			return TVal{T: term, Sort: f.Sort, Ty: st.Field(i).Type()}
		}
	}
	// embedded
	for i, f := range si.Fields {
		if st.Field(i).Embedded() {
			inner := TVal{T: "(" + f.Acc + " " + base + ")", Sort: f.Sort, Ty: st.Field(i).Type()}
			var errs []string
			sub := *e
			sub.errs = &errs
			r := sub.field(inner, name)
			if len(errs) == 0 {
				return r
			}
		}
	}
	return e.fail("no field %s in %s", name, t)
}

func (e *Env) trCall(n *ast.CallExpr) TVal {
	fname := ""
	switch f := n.Fun.(type) {
	case *ast.Ident:
		fname = f.Name
	case *ast.SelectorExpr:
		if id, ok := f.X.(*ast.Ident); ok {
			fname = id.Name + "." + f.Sel.Name
		}
	}
	if fname == "" {
		return e.fail("unsupported call expression")
	}
	arg := func(i int) TVal { return e.tr(n.Args[i]) }
	need := func(k int) bool {
		if len(n.Args) != k {
			e.fail("%s expects %d arguments", fname, k)
			return false
		}
		return true
	}
	switch fname {
	case "old":
		if !need(1) {
			return TVal{T: "false", Sort: "Bool"}
		}
		if e.old == nil {
			return e.fail("old() used where no pre-state exists")
		}
		sub := *e
		sub.st = e.old
		return sub.tr(n.Args[0])
	case "calls":
		// calls("<target>"): calls of <target> made so far by the activation under contract
		if !need(1) {
			return TVal{T: "0", Sort: "Int"}
		}
		lit, ok := n.Args[0].(*ast.BasicLit)
		if !ok {
			return e.fail("calls: argument is a string literal naming the callee")
		}
		tg, _ := strconv.Unquote(lit.Value)
		comp, ok := e.x.callCount[tg]
		if !ok {
			return e.fail("calls(%q) is only available in the contract of the calling function", tg)
		}
		return TVal{T: e.st.get(comp), Sort: "Int"}
	case "visited":
		// visited(k): the map iteration of the function under contract has already handed out key k
		if !need(1) {
			return TVal{T: "false", Sort: "Bool"}
		}
		if e.x.visComp == "" {
			return e.fail("visited(k): the function under contract has no map iteration")
		}
		return TVal{T: "(select " + e.st.get(e.x.visComp) + " " + arg(0).T + ")", Sort: "Bool"}
	case "allok":
		// allok("<target>[@k]", i): every call of <target> made so far by this activation returned true as result i
		if !need(2) {
			return TVal{T: "true", Sort: "Bool"}
		}
		lit, ok := n.Args[0].(*ast.BasicLit)
		if !ok {
			return e.fail("allok: first argument is a string literal naming the callee")
		}
		tg, _ := strconv.Unquote(lit.Value)
		a, ok := e.x.accWant[tg]
		if !ok {
			return e.fail("allok(%q, i) is only available in the contract of the calling function", tg)
		}
		return TVal{T: e.st.get(a.comp), Sort: "Bool"}
	case "result":
		// result("<target>@k", i): the i-th result of that call of the activation under contract
		// (meaningful only on paths through the call: guard with calls("<target>@k") == 1)
		if len(n.Args) != 1 && len(n.Args) != 2 {
			return e.fail("result(\"target@k\"[, i])")
		}
		lit, ok := n.Args[0].(*ast.BasicLit)
		if !ok {
			return e.fail("result: first argument is a string literal naming the call")
		}
		tg, _ := strconv.Unquote(lit.Value)
		cr, ok := e.x.callResults[tg]
		if !ok {
			// the call exists in the function but was not executed on the way here (or the code was
			// changed so that it no longer precedes this point): its result is an arbitrary value —
			// the clause then holds only if it holds whatever that call would return
			sig := e.x.findCallSig(tg)
			if sig == nil {
				return e.fail("result(%q): the function under contract has no such call", tg)
			}
			rs := sig.Results()
			var tup []sval
			for k := 0; k < rs.Len(); k++ {
				tup = append(tup, sval{t: e.x.freshConst("noresult", e.x.so.sortOf(rs.At(k).Type()))})
			}
			cr = capturedCall{sig: sig}
			if rs.Len() == 1 {
				cr.rv = tup[0]
			} else {
				cr.rv = sval{tup: tup}
			}
		}
		i := 0
		if len(n.Args) == 2 {
			il, ok := n.Args[1].(*ast.BasicLit)
			if !ok {
				return e.fail("result: second argument is the result index")
			}
			i, _ = strconv.Atoi(il.Value)
		}
		rs := cr.sig.Results()
		if i >= rs.Len() {
			return e.fail("result(%q, %d): the callee has %d results", tg, i, rs.Len())
		}
		v := cr.rv
		if rs.Len() > 1 {
			if i >= len(v.tup) {
				return e.fail("result(%q, %d): result not available", tg, i)
			}
			v = v.tup[i]
		}
		return TVal{T: v.t, Sort: e.x.so.sortOf(rs.At(i).Type()), Ty: rs.At(i).Type()}
	case "athead":
		// athead(k, e): e evaluated in the state at the head of loop k of the function under
		// contract, in the current iteration (after the loop havoc, invariants assumed)
		if !need(2) {
			return TVal{T: "false", Sort: "Bool"}
		}
		lit, ok := n.Args[0].(*ast.BasicLit)
		if !ok {
			return e.fail("athead: first argument is the loop ordinal")
		}
		k, _ := strconv.Atoi(lit.Value)
		hs := e.x.headSt[k]
		if hs == nil {
			return e.fail("athead(%d, ...) used outside loop %d", k, k)
		}
		sub := *e
		sub.st = hs
		return sub.tr(n.Args[1])
	case "imp":
		if !need(2) {
			return TVal{T: "false", Sort: "Bool"}
		}
		return TVal{T: "(=> " + arg(0).T + " " + arg(1).T + ")", Sort: "Bool"}
	case "iff":
		if !need(2) {
			return TVal{T: "false", Sort: "Bool"}
		}
		return TVal{T: "(= " + arg(0).T + " " + arg(1).T + ")", Sort: "Bool"}
	case "ite":
		if !need(3) {
			return TVal{T: "false", Sort: "Bool"}
		}
		a, b := arg(1), arg(2)
		bt := b.T
		if b.Sort == "nil" {
			bt = e.nilFor(a)
		}
		at := a.T
		srt := a.Sort
		ty := a.Ty
		if a.Sort == "nil" {
			at = e.nilFor(b)
			srt = b.Sort
			ty = b.Ty
		}
		return TVal{T: "(ite " + arg(0).T + " " + at + " " + bt + ")", Sort: srt, Ty: ty}
	case "len":
		if !need(1) {
			return TVal{T: "0", Sort: "Int"}
		}
		return TVal{T: "(s_len " + arg(0).T + ")", Sort: "Int"}
	case "cap":
		if !need(1) {
			return TVal{T: "0", Sort: "Int"}
		}
		return TVal{T: "(s_cap " + arg(0).T + ")", Sort: "Int"}
	case "fresh":
		if !need(1) {
			return TVal{T: "false", Sort: "Bool"}
		}
		if e.old == nil {
			return e.fail("fresh() needs a pre-state")
		}
		a := arg(0)
		t := a.T
		if a.Sort == "Slice" {
			t = "(s_base " + a.T + ")"
		}
		return TVal{T: "(and (>= " + t + " " + e.old.na + ") (< " + t + " " + e.st.na + "))", Sort: "Bool"}
	case "allocated":
		if !need(1) {
			return TVal{T: "false", Sort: "Bool"}
		}
		a := arg(0)
		t := a.T
		if a.Sort == "Slice" {
			t = "(s_base " + a.T + ")"
		}
		return TVal{T: "(and (< 0 " + t + ") (< " + t + " " + e.st.na + "))", Sort: "Bool"}
	case "ord":
		if !need(1) {
			return TVal{T: "0.0", Sort: "Real"}
		}
		a := arg(0)
		return TVal{T: e.ordOf(a.T), Sort: "Real"}
	case "isnil":
		if !need(1) {
			return TVal{T: "false", Sort: "Bool"}
		}
		return TVal{T: "(= (s_base " + arg(0).T + ") 0)", Sort: "Bool"}
	case "at":
		if !need(2) {
			return TVal{T: "0", Sort: "Int"}
		}
		a, i := arg(0), arg(1)
		return TVal{T: "(select (select " + e.st.get("BM") + " (s_base " + a.T + ")) (idx (s_off " + a.T + ") " + i.T + "))", Sort: "Int"}
	case "row":
		// the backing row of a byte slice: (select BM base)
		if !need(1) {
			return TVal{T: "0", Sort: "Int"}
		}
		a := arg(0)
		return TVal{T: "(select " + e.st.get("BM") + " (s_base " + a.T + "))", Sort: "(Array Int Int)"}
	case "heap":
		if !need(1) {
			return TVal{T: "0", Sort: "Int"}
		}
		id, ok := n.Args[0].(*ast.Ident)
		if !ok {
			return e.fail("heap(<region>)")
		}
		return TVal{T: e.x.regionRecord(e.st, id.Name), Sort: "Reg" + id.Name}
	case "comp":
		// raw component access comp(H_iavl_Node)
		if !need(1) {
			return TVal{T: "0", Sort: "Int"}
		}
		id, ok := n.Args[0].(*ast.Ident)
		if !ok {
			return e.fail("comp(<name>)")
		}
		srt, ok := e.x.so.comps[id.Name]
		if !ok {
			return e.fail("unknown component %s", id.Name)
		}
		return TVal{T: e.st.get(id.Name), Sort: srt}
	case "store":
		if !need(3) {
			return TVal{T: "0", Sort: "Int"}
		}
		a, i, v := arg(0), arg(1), arg(2)
		vt := v.T
		if v.Sort == "nil" {
			vt = "0"
		}
		return TVal{T: "(store " + a.T + " " + i.T + " " + vt + ")", Sort: a.Sort, Ty: a.Ty}
	case "unbox":
		// the string/[]byte held in an interface value
		if !need(1) {
			return TVal{T: "nilS", Sort: "Slice"}
		}
		return TVal{T: "(unboxSlice " + arg(0).T + ")", Sort: "Slice", Ty: types.Typ[types.String]}
	case "ptr":
		// ptr(x, "pkg.T"): the *T held in interface value x (the dynamic value of a pointer type is the pointer)
		if !need(2) {
			return TVal{T: "0", Sort: "Int"}
		}
		tn := strings.Trim(exprString(n.Args[1]), "\"")
		ty := e.x.eng.lookupType(tn, e.pkg)
		if ty == nil {
			return e.fail("ptr: unknown type %s", tn)
		}
		return TVal{T: arg(0).T, Sort: "Int", Ty: types.NewPointer(ty)}
	case "typeis":
		if !need(2) {
			return TVal{T: "false", Sort: "Bool"}
		}
		tn := exprString(n.Args[1])
		return TVal{T: "(= (dyntype " + arg(0).T + ") " + strconv.Itoa(e.x.eng.typeID(tn)) + ")", Sort: "Bool"}
	case "forall", "exists":
		return e.trQuant(fname, n)
	case "all":
		// all(s, x, body): body holds for every element x of slice s
		if !need(3) {
			return TVal{T: "false", Sort: "Bool"}
		}
		sv := arg(0)
		id, ok := n.Args[1].(*ast.Ident)
		if !ok || sv.Sort != "Slice" || sv.Ty == nil {
			return e.fail("all(slice, elementName, body)")
		}
		sl, ok := sv.Ty.Underlying().(*types.Slice)
		if !ok {
			return e.fail("all: not a slice")
		}
		comp := e.x.so.elemComp(sl.Elem())
		row := "(select " + e.st.get(comp) + " (s_base " + sv.T + "))"
		sub := e.clone()
		sub.errs = e.errs
		el := "(select " + row + " (idx (s_off " + sv.T + ") j!))"
		sub.vars[id.Name] = TVal{T: el, Sort: e.x.so.sortOf(sl.Elem()), Ty: sl.Elem()}
		body := sub.tr(n.Args[2])
		return TVal{T: "(forall ((j! Int)) (! (=> (and (<= 0 j!) (< j! (s_len " + sv.T + "))) " + body.T + ") :pattern (" + el + ")))", Sort: "Bool"}
	case "int", "int64", "int32", "int8", "uint64", "uint32", "uint8", "uint", "byte", "int16", "uint16":
		if !need(1) {
			return TVal{T: "0", Sort: "Int"}
		}
		a := arg(0)
		return TVal{T: a.T, Sort: "Int"}
	case "real":
		if !need(1) {
			return TVal{T: "0.0", Sort: "Real"}
		}
		return TVal{T: "(to_real " + arg(0).T + ")", Sort: "Real"}
	case "b2i":
		if !need(1) {
			return TVal{T: "0", Sort: "Int"}
		}
		return TVal{T: "(b2i " + arg(0).T + ")", Sort: "Int"}
	}
	// spec function
	sf, ok := e.x.eng.specFns[fname]
	if !ok {
		return e.fail("unknown spec function %s", fname)
	}
	var parts []string
	parts = append(parts, "("+fname)
	for _, r := range sf.Regions {
		if r == "BM" {
			parts = append(parts, e.st.get("BM"))
		} else if strings.HasPrefix(r, "comp:") {
			parts = append(parts, e.st.get(strings.TrimPrefix(r, "comp:")))
		} else if strings.HasPrefix(r, "ghost:") {
			parts = append(parts, e.st.get("G_"+strings.TrimPrefix(r, "ghost:")))
		} else {
			parts = append(parts, e.x.regionRecord(e.st, r))
		}
	}
	if len(n.Args) != len(sf.ArgSorts) {
		return e.fail("%s expects %d arguments, got %d", fname, len(sf.ArgSorts), len(n.Args))
	}
	for i := range n.Args {
		a := arg(i)
		t := a.T
		if a.Sort == "nil" {
			if sf.ArgSorts[i] == "Slice" {
				t = "nilS"
			}
		}
		if sf.ArgSorts[i] == "Real" && a.Sort == "Int" {
			t = "(to_real " + t + ")"
		}
		parts = append(parts, t)
	}
	if len(parts) == 1 {
		return TVal{T: fname, Sort: sf.Result}
	}
	return TVal{T: strings.Join(parts, " ") + ")", Sort: sf.Result}
}

func (e *Env) ordOf(t string) string {
	return "(ordRow (select " + e.st.get("BM") + " (s_base " + t + ")) (s_off " + t + ") (s_len " + t + "))"
}

func exprString(x ast.Expr) string {
	switch n := x.(type) {
	case *ast.Ident:
		return n.Name
	case *ast.SelectorExpr:
		return exprString(n.X) + "." + n.Sel.Name
	case *ast.StarExpr:
		return "*" + exprString(n.X)
	case *ast.BasicLit:
		return strings.Trim(n.Value, "\"")
	}
	return "?"
}

// forall(i, body) / forall(i, lo, hi, body) / forall(i Sort..)
func (e *Env) trQuant(kind string, n *ast.CallExpr) TVal {
	if len(n.Args) != 2 && len(n.Args) != 4 && len(n.Args) != 3 {
		return e.fail("%s(var, [lo, hi,] body)", kind)
	}
	id, ok := n.Args[0].(*ast.Ident)
	if !ok {
		return e.fail("%s: first argument must be a variable name", kind)
	}
	sub := e.clone()
	sub.errs = e.errs
	vn := id.Name
	srt := "Int"
	sub.bound[vn] = srt
	delete(sub.vars, vn)
	body := sub.tr(n.Args[len(n.Args)-1])
	q := "forall"
	conn := "=>"
	if kind == "exists" {
		q = "exists"
		conn = "and"
	}
	if len(n.Args) == 4 {
		lo := sub.tr(n.Args[1])
		hi := sub.tr(n.Args[2])
		return TVal{T: "(" + q + " ((" + vn + " " + srt + ")) (" + conn + " (and (<= " + lo.T + " " + vn + ") (< " + vn + " " + hi.T + ")) " + body.T + "))", Sort: "Bool"}
	}
	return TVal{T: "(" + q + " ((" + vn + " " + srt + ")) " + body.T + ")", Sort: "Bool"}
}
