package main

import (
	"encoding/json"
	"flag"
	"fmt"
	"os"
	"path/filepath"
	"sort"
	"strings"
	"time"

	"golang.org/x/tools/go/ssa"
)

func main() {
	if len(os.Args) < 2 {
		fmt.Fprintln(os.Stderr, "usage: govc check|dump|list ...")
		os.Exit(2)
	}
	switch os.Args[1] {
	case "check":
		os.Exit(cmdCheck(os.Args[2:]))
	case "dump":
		os.Exit(cmdDump(os.Args[2:]))
	case "selftest":
		os.Exit(cmdSelftest(os.Args[2:]))
	case "invokes":
		os.Exit(cmdInvokes(os.Args[2:]))
	case "ssa":
		os.Exit(cmdSSA(os.Args[2:]))
	default:
		fmt.Fprintln(os.Stderr, "unknown command")
		os.Exit(2)
	}
}

var defaultPatterns = []string{".", "./internal/encoding", "./fastnode", "./keyformat", "./db", "./cache", "./internal/bytes"}

func has(list []string, s string) bool {
	for _, l := range list {
		if l == s {
			return true
		}
	}
	return false
}

func intersects(a, b []string) bool {
	for _, x := range a {
		if has(b, x) {
			return true
		}
	}
	return false
}

// selectWork picks the functions to verify for the requested properties.
func selectWork(e *Engine, props []string, only string) []*FuncResult {
	var out []*FuncResult
	done := map[string]bool{}
	for _, key := range e.ctOrder {
		ct := e.contracts[key]
		hist := false
		for _, en := range ct.Ensures {
			if en.Internal && historyRe.MatchString(en.Text) {
				hist = true
			}
		}
		if ct.Assumed && (len(ct.Callsites) > 0 || hist) {
			// an assumed contract may still carry call-site conditions and postconditions over the
			// activation's own call history: those are proved on the real body (no safety
			// obligations, the other postconditions stay assumed)
			cc := *ct
			cc.Assumed = false
			cc.Ensures = nil
			for _, en := range ct.Ensures {
				if en.Internal && historyRe.MatchString(en.Text) {
					cc.Ensures = append(cc.Ensures, en)
				}
			}
			cc.Requires = append(append([]Clause{}, ct.Requires...), ct.BodyReq...)
			cc.NoSafety = true
			cc.Modifies = []string{"*"}
			cc.HasMod = true
			ct = &cc
		}
		if ct.Assumed || ct.Summary || (ct.Inline && len(ct.Ensures) == 0 && len(ct.Callsites) == 0) {
			// (an `inline` contract with postconditions is still verified on its own: callers keep
			// seeing the body, the clauses pin the function down for the property)
			continue
		}
		if len(props) > 0 && !intersects(ct.Props, props) {
			continue
		}
		if only != "" && !strings.Contains(key, only) {
			continue
		}
		fn := e.fns[key]
		if fn == nil || len(fn.Blocks) == 0 {
			e.specErrs = append(e.specErrs, fmt.Sprintf("%s:%d: contract for unknown function %s", ct.File, ct.Line, key))
			continue
		}
		if ct.Bounded != "" {
			continue
		}
		done[key] = true
		out = append(out, e.verifyFunc(fn, ct, false, nil))
	}
	// error-flow pass (C17): every function of the storage-facing packages
	if len(props) == 0 || has(props, "C17") {
		var ks []string
		for k := range e.fns {
			ks = append(ks, k)
		}
		sort.Strings(ks)
		for _, k := range ks {
			fn := e.fns[k]
			if len(fn.Blocks) == 0 || fn.Synthetic != "" || fn.Pkg == nil && fn.Parent() == nil {
				continue
			}
			if only != "" && !strings.Contains(k, only) {
				continue
			}
			if !errflowScope(fn, e) {
				continue
			}
			if ct := e.errflow[k]; ct != nil && ct.Assumed {
				continue
			}
			if fr := e.verifyErrflow(fn, []string{"C17"}); fr != nil {
				out = append(out, fr)
			}
		}
	}
	// zero-annotation safety sweep
	var keys []string
	for k := range e.fns {
		keys = append(keys, k)
	}
	sort.Strings(keys)
	for _, k := range keys {
		if done[k] {
			continue
		}
		fn := e.fns[k]
		if len(fn.Blocks) == 0 || fn.Synthetic != "" {
			continue
		}
		if only != "" && !strings.Contains(k, only) {
			continue
		}
		var ps []string
		for _, r := range e.sweepProps {
			if matchSweep(r.pattern, fn, e) {
				ps = append(ps, r.props...)
			}
		}
		if len(ps) == 0 {
			continue
		}
		if len(props) > 0 && !intersects(ps, props) {
			continue
		}
		if ct := e.contracts[k]; ct != nil {
			continue // functions under contract are checked against their contract, not swept
		}
		out = append(out, e.verifyFunc(fn, nil, true, ps))
	}
	return out
}

// errflowScope: non-test functions of the root package and fastnode.
func errflowScope(fn *ssa.Function, e *Engine) bool {
	g := fn
	for g.Parent() != nil {
		g = g.Parent()
	}
	if g.Pkg == nil {
		return false
	}
	switch g.Pkg.Pkg.Path() {
	case "github.com/cosmos/iavl", "github.com/cosmos/iavl/fastnode":
	default:
		return false
	}
	if !fn.Pos().IsValid() {
		return false
	}
	file := e.prog.Fset.Position(fn.Pos()).Filename
	base := filepath.Base(file)
	if strings.HasSuffix(base, "_test.go") || base == "tree_dotgraph.go" || base == "logger.go" || strings.HasPrefix(base, "zz_") {
		return false
	}
	return true
}

// matchSweep: pattern is "file:<basename>" or a substring of the function key.
func matchSweep(pat string, fn *ssa.Function, e *Engine) bool {
	if strings.HasPrefix(pat, "file:") {
		if !fn.Pos().IsValid() {
			return false
		}
		p := e.prog.Fset.Position(fn.Pos())
		rel, err := filepath.Rel(e.repo, p.Filename)
		if err != nil {
			return false
		}
		return rel == strings.TrimPrefix(pat, "file:")
	}
	return strings.Contains(fn.String(), pat)
}

func cmdCheck(args []string) int {
	fs := flag.NewFlagSet("check", flag.ExitOnError)
	repo := fs.String("repo", "/repo", "repository")
	verif := fs.String("verif", "/verif", "verif dir")
	propsF := fs.String("props", "", "comma separated property ids")
	tier := fs.String("tier", "quick", "quick|thorough")
	only := fs.String("only", "", "restrict to functions containing this substring")
	updBase := fs.Bool("update-baseline", false, "rewrite baseline entries for the selected properties")
	keep := fs.Bool("keep", false, "keep all smt files")
	verbose := fs.Bool("v", false, "verbose")
	noEvidence := fs.Bool("no-evidence", false, "do not write evidence files")
	timeout := fs.Int("timeout", 0, "per-solver timeout (s)")
	dev := fs.Bool("dev", false, "development: full portfolio for every obligation, no confirmation")
	module := fs.String("module", "", "sub-module of the repository to verify (e.g. v2): loads <repo>/<module> with the specification directory spec_<module>")
	fs.Parse(args)
	patterns := defaultPatterns
	if *module != "" {
		*repo = filepath.Join(*repo, *module)
		specSubdir = "spec_" + *module
		patterns = []string{".", "./internal"}
	}
	t0 := time.Now()
	var props []string
	if *propsF != "" {
		props = strings.Split(*propsF, ",")
	}
	seed := 0
	fmt.Sscanf(os.Getenv("VERIF_SEED"), "%d", &seed)
	e, err := loadEngine(*repo, *verif, patterns, nil)
	if err != nil {
		fmt.Fprintln(os.Stderr, "ENGINE ERROR: load:", err)
		// a tree that does not load cannot be judged
		return 3
	}
	loadS := time.Since(t0).Seconds()
	frs := selectWork(e, props, *only)
	var lemmas []*Lemma
	for _, l := range e.lemmas {
		if (len(props) == 0 || intersects(l.Props, props)) && (*only == "" || strings.Contains(l.Name, *only)) {
			lemmas = append(lemmas, l)
		}
	}
	genS := time.Since(t0).Seconds() - loadS
	cfg := solveConfig{dir: filepath.Join(os.TempDir(), fmt.Sprintf("govc-%d", os.Getpid())), timeoutS: 60, workers: 14, phaseA: os.Getenv("GOVC_NO_PHASEA") == "", keepFiles: *keep}
	if *tier == "thorough" {
		cfg.timeoutS = 60
		cfg.confirm = true
	} else if !*updBase && !*dev {
		cfg.claimed = map[string]bool{}
		for n := range readBaseline(filepath.Join(*verif, "baseline_obligations.txt")) {
			cfg.claimed[n] = true
		}
		for _, k := range readKnown(filepath.Join(*verif, "known_findings.txt")) {
			cfg.claimed[k.Obligation] = true
		}
	}
	if *timeout > 0 {
		cfg.timeoutS = *timeout
	}
	tSolve := time.Now()
	results := solveAll(e.prelude(), e.opaqueDefs, frs, lemmas, cfg)
	if *verbose {
		fmt.Printf("timing: load %.1fs, generate %.1fs, solve %.1fs (wall)\n", loadS, genS, time.Since(tSolve).Seconds())
		sort.Slice(results, func(i, j int) bool { return results[i].TimeS > results[j].TimeS })
		for i := 0; i < 8 && i < len(results); i++ {
			fmt.Printf("slow: %.2fs %s %s %s\n", results[i].TimeS, results[i].Status, results[i].Solver, results[i].Obl.Name)
		}
	}
	rep := buildReport(e, frs, results, props, *tier, seed, *verif, time.Since(t0).Seconds(), loadS, genS, *updBase, *verbose)
	rep.partial = *only != ""
	code := rep.emit(*verif, !*noEvidence, *verbose)
	if !*keep && code == 0 {
		os.RemoveAll(cfg.dir)
	}
	return code
}

// cmdDump writes the SMT files of one function's obligations.
func cmdDump(args []string) int {
	fs := flag.NewFlagSet("dump", flag.ExitOnError)
	repo := fs.String("repo", "/repo", "repository")
	verif := fs.String("verif", "/verif", "verif dir")
	only := fs.String("only", "", "function substring")
	out := fs.String("out", "/tmp/govc-dump", "output dir")
	propsF := fs.String("props", "", "properties (use the check selection instead of -only alone)")
	module := fs.String("module", "", "sub-module (e.g. v2)")
	fs.Parse(args)
	patterns := defaultPatterns
	if *module != "" {
		*repo = filepath.Join(*repo, *module)
		specSubdir = "spec_" + *module
		patterns = []string{".", "./internal"}
	}
	e, err := loadEngine(*repo, *verif, patterns, nil)
	if err != nil {
		fmt.Fprintln(os.Stderr, err)
		return 3
	}
	os.MkdirAll(*out, 0o755)
	var frs []*FuncResult
	if *propsF != "" {
		frs = selectWork(e, strings.Split(*propsF, ","), *only)
	} else {
		for k, fn := range e.fns {
			if strings.Contains(k, *only) && len(fn.Blocks) > 0 {
				ct := e.contracts[k]
				frs = append(frs, e.verifyFunc(fn, ct, ct == nil, nil))
			}
		}
	}
	pre := e.prelude()
	n := 0
	for _, fr := range frs {
		for _, nt := range fr.Notes {
			fmt.Println("note:", fr.Func, nt)
		}
		for _, o := range fr.Obls {
			if len(o.Cases) > 0 {
				for ci, c := range o.Cases {
					oc := *o
					oc.Cases = nil
					oc.Idx, oc.Guard, oc.Goal, oc.Block = c.Idx, c.Guard, c.Goal, c.Block
					f := filepath.Join(*out, fmt.Sprintf("%03d_%s_case%d.smt2", n, sanitize(strings.TrimPrefix(o.Name, fr.Func)), ci))
					os.WriteFile(f, []byte(writeObligation(pre, fr, &oc, true)), 0o644)
					fmt.Println(f, o.Name)
				}
				n++
				continue
			}
			f := filepath.Join(*out, fmt.Sprintf("%03d_%s.smt2", n, sanitize(strings.TrimPrefix(o.Name, fr.Func))))
			os.WriteFile(f, []byte(writeObligation(pre, fr, o, true)), 0o644)
			fmt.Println(f, o.Name)
			n++
		}
	}
	for _, s := range e.specErrs {
		fmt.Println("SPEC ERROR:", s)
	}
	return 0
}

func cmdSSA(args []string) int {
	fs := flag.NewFlagSet("ssa", flag.ExitOnError)
	repo := fs.String("repo", "/repo", "repository")
	verif := fs.String("verif", "/verif", "verif dir")
	only := fs.String("only", "", "function substring")
	fs.Parse(args)
	e, err := loadEngine(*repo, *verif, defaultPatterns, nil)
	if err != nil {
		fmt.Fprintln(os.Stderr, err)
		return 3
	}
	var keys []string
	for k := range e.fns {
		if strings.Contains(k, *only) {
			keys = append(keys, k)
		}
	}
	sort.Strings(keys)
	for _, k := range keys {
		e.fns[k].WriteTo(os.Stdout)
	}
	return 0
}

func writeJSON(path string, v interface{}) error {
	b, err := json.MarshalIndent(v, "", " ")
	if err != nil {
		return err
	}
	return os.WriteFile(path, append(b, '\n'), 0o644)
}
