package main

// exec.go — symbolic execution of go/ssa functions into SMT-LIB
// verification conditions (passive DAG encoding, loops cut by invariants,
// calls replaced by contracts or inlined).

import (
	"fmt"
	"go/constant"
	"go/token"
	"go/types"
	"sort"
	"strconv"
	"strings"

	"golang.org/x/tools/go/ssa"
)

// ---------------------------------------------------------------- state

type State struct {
	x       *Exec
	m       map[string]string
	na      string
	tainted bool
}

func (s *State) clone() *State {
	n := &State{x: s.x, m: make(map[string]string, len(s.m)), na: s.na, tainted: s.tainted}
	for k, v := range s.m {
		n.m[k] = v
	}
	return n
}

// get returns the current symbol of a heap component.
func (s *State) get(comp string) string {
	if v, ok := s.m[comp]; ok {
		return v
	}
	srt, ok := s.x.so.comps[comp]
	if !ok {
		if strings.HasPrefix(comp, "G_") {
			srt = s.x.eng.ghosts[strings.TrimPrefix(comp, "G_")]
			s.x.so.addComp(comp, srt)
		} else {
			panic("unknown component " + comp)
		}
	}
	sym := comp + "_in"
	late := s.tainted && !(s.x.errflow && strings.HasPrefix(comp, "G_")) && !strings.HasPrefix(comp, "L_")
	if late {
		sym = comp + "_late"
	}
	s.x.declare(sym, srt)
	if !late {
		s.x.symNa[sym] = s.x.entryNa
	}
	if !s.tainted {
		s.x.entryComps[comp] = sym
	}
	return sym
}

func (s *State) set(comp, sym string) {
	s.m[comp] = sym
	if _, ok := s.x.symNa[sym]; !ok {
		s.x.symNa[sym] = s.na
	}
}

// ---------------------------------------------------------------- values

type Loc struct {
	Kind string // "field", "elem"
	// field: object ref + path of fields inside the object's record
	Obj  string
	Comp string
	Path []FieldStep
	// elem: backing row id + index
	Base  string
	Idx   string
	ElemT types.Type
}

type FieldStep struct {
	SI  *StructInfo
	Idx int
}

type closure struct {
	fn       *ssa.Function
	bindings []sval
}

type sval struct {
	t   string
	loc *Loc
	tup []sval
	clo *closure
}

type deferred struct {
	cond string
	call *ssa.CallCommon
	args []sval
	fnv  sval
	pos  token.Pos
}

type frame struct {
	fn     *ssa.Function
	vals   map[ssa.Value]sval
	prefix string
	depth  int
	defers []deferred
	parent *frame
	top    bool
	// loop bookkeeping
	loopOf map[*ssa.BasicBlock]int // head -> ordinal
}

type Obligation struct {
	Name     string
	Kind     string
	Func     string
	Props    []string
	Idx      int // number of commands visible
	Guard    string
	Goal     string
	Desc     string
	Pos      string
	Tainted  bool   // generated after an unmodelled construct
	Vacuity  bool   // expected result is sat (reachability check)
	Inlined  bool
	ExtraCmd string // extra commands (declarations) local to this obligation
	Seq      int       // generation order within the function
	Block    int       // top-level basic block the obligation belongs to (-1: none)
	Cases    []oblCase // if non-empty: one query per case (e.g. per return site); all must be unsat
}

type oblCase struct {
	Idx   int
	Guard string
	Goal  string
	Block int
}

type Exec struct {
	eng        *Engine
	so         *Sorts
	cmds       []string
	declared   map[string]bool
	obls       []*Obligation
	fn         *ssa.Function
	ct         *Contract
	counter    int
	entryComps map[string]string
	entryNa    string
	cellClo    map[string]*closure
	notes      map[string]bool
	nameCount  map[string]int
	inlineStk  []*ssa.Function
	regCache   map[string]string
	taintNote  string
	curTaint   bool
	noSafety   bool
	paramEnv   map[string]TVal
	propsOver  []string
	topEnv     *Env
	csCases    map[int][]oblCase // callsite clauses: cases collected per clause (keyed by its line)
	csSeq      map[int]int       // generation-order position of each clause's first call site
	sweep      bool
	pending    *pendingStore
	errflow    bool
	frameOnly  string
	topRets    []retInfo
	cmdTag     []int
	symNa      map[string]string // heap symbol -> allocation bound when it was created
	curBlock   int
	headSt     map[int]*State // top frame: state at each loop head (current iteration)
	accWant     map[string]accSpec      // allok("<target>", i) accumulators of the function under contract
	resultWant  map[string]bool         // result("<target>@k", i) mentioned by the contract
	callResults map[string]capturedCall // ... and the values the matching call returned
	visComp    string            // visited-set ghost of the (last) map iteration of the function under contract
	callCount  map[string]string // calls("<target>") counters of the function under contract: target -> private component
}

func (x *Exec) fresh(base string) string {
	x.counter++
	return fmt.Sprintf("%s!%d", sanitize(base), x.counter)
}

func (x *Exec) declare(sym, srt string) {
	if x.declared[sym] {
		return
	}
	x.declared[sym] = true
	x.cmds = append(x.cmds, "(declare-const "+sym+" "+srt+")")
	x.cmdTag = append(x.cmdTag, -1)
}

func (x *Exec) freshConst(base, srt string) string {
	s := x.fresh(base)
	x.declare(s, srt)
	return s
}

func (x *Exec) assume(guard, fact string) {
	if fact == "true" || fact == "" {
		return
	}
	if guard == "" || guard == "true" {
		x.emit("(assert "+fact+")")
	} else {
		x.emit("(assert (=> "+guard+" "+fact+"))")
	}
}

func (x *Exec) define(base, srt, term string) string {
	s := x.freshConst(base, srt)
	x.emit("(assert (= "+s+" "+term+"))")
	return s
}

func (x *Exec) note(s string) { x.notes[s] = true }

// emit appends a command, tagged with the top-level basic block being
// executed (used to slice obligations by control-flow relevance).
func (x *Exec) emit(cmd string) {
	x.cmds = append(x.cmds, cmd)
	x.cmdTag = append(x.cmdTag, x.curBlock)
}

// markNamed tells the solver that term is a program-visible object of a
// type for which the specification asks for unfolding (;@named).
func (x *Exec) markNamed(term string, t types.Type) {
	p, ok := t.Underlying().(*types.Pointer)
	if !ok {
		return
	}
	if pred, ok := x.eng.named[typeKey(p.Elem())]; ok {
		x.emit("(assert ("+pred+" "+term+"))")
	}
}

func (x *Exec) oblName(kind, anchor string) string {
	base := kind + ":" + anchor
	x.nameCount[base]++
	if n := x.nameCount[base]; n > 1 {
		base = fmt.Sprintf("%s#%d", base, n)
	}
	if x.errflow {
		return x.fn.String() + "#errflow/" + base
	}
	return x.fn.String() + "#" + base
}

func (x *Exec) oblige(kind, anchor, guard, goal, desc string, pos token.Pos) {
	if goal == "true" {
		return
	}
	if x.noSafety && kind == "safety" {
		x.assume(guard, goal)
		return
	}
	o := &Obligation{Name: x.oblName(kind, anchor), Kind: kind, Func: x.fn.String(), Idx: len(x.cmds), Guard: guard, Goal: goal, Desc: desc, Tainted: x.curTaint, Inlined: len(x.inlineStk) > 1, Block: x.curBlock}
	if x.errflow {
		o.Func += "#errflow"
	}
	if pos.IsValid() {
		p := x.eng.prog.Fset.Position(pos)
		o.Pos = fmt.Sprintf("%s:%d", p.Filename, p.Line)
	}
	if x.ct != nil {
		o.Props = x.ct.Props
	}
	if len(x.propsOver) > 0 {
		o.Props = x.propsOver
	}
	o.Seq = len(x.obls)
	x.obls = append(x.obls, o)
	// once checked, the fact may be assumed downstream
	x.assume(guard, goal)
}

// obligeCases records one obligation made of several queries (one per
// return site); afterwards every case may be assumed.
func (x *Exec) obligeCases(kind, anchor string, cases []oblCase, desc string, pos token.Pos) {
	x.obligeCasesIdx(kind, anchor, cases, desc, pos, false)
}

func (x *Exec) obligeCasesIdx(kind, anchor string, cases []oblCase, desc string, pos token.Pos, keepIdx bool) {
	var keep []oblCase
	for _, c := range cases {
		if c.Goal != "true" {
			keep = append(keep, c)
		}
	}
	if len(keep) == 0 {
		return
	}
	for i := range keep {
		if !keepIdx {
			keep[i].Idx = len(x.cmds)
		}
	}
	fname := x.fn.String()
	if x.errflow {
		fname += "#errflow"
	}
	o := &Obligation{Name: x.oblName(kind, anchor), Kind: kind, Func: fname, Idx: len(x.cmds), Cases: keep, Desc: desc, Tainted: x.curTaint}
	if pos.IsValid() {
		p := x.eng.prog.Fset.Position(pos)
		o.Pos = fmt.Sprintf("%s:%d", p.Filename, p.Line)
	}
	if x.ct != nil {
		o.Props = x.ct.Props
	}
	if len(x.propsOver) > 0 {
		o.Props = x.propsOver
	}
	o.Seq = len(x.obls)
	x.obls = append(x.obls, o)
	for _, c := range keep {
		x.assume(c.Guard, c.Goal)
	}
}

// regionRecord builds (and caches) the record term of a heap region.
func (x *Exec) regionRecord(st *State, region string) string {
	rc, ok := x.eng.regions[region]
	if !ok {
		panic("unknown region " + region)
	}
	var syms []string
	for _, c := range rc {
		syms = append(syms, st.get(c))
	}
	key := region + ":" + strings.Join(syms, ",")
	if s, ok := x.regCache[key]; ok {
		return s
	}
	s := x.freshConst("reg"+region, "Reg"+region)
	for i, acc := range x.eng.regionAcc[region] {
		x.emit("(assert (= (" + acc + " " + s + ") " + syms[i] + "))")
	}
	x.regCache[key] = s
	return s
}

// allocFrame is called before a fresh object of comp is initialised; the
// returned function, called afterwards, states the ;@allocfact of comp.
func (x *Exec) allocFrame(st *State, comp string) func() {
	af, ok := x.eng.allocFacts[comp]
	if !ok || x.errflow {
		return func() {}
	}
	if _, ok := x.eng.regions[af[1]]; !ok {
		return func() {}
	}
	pre := x.regionRecord(st, af[1])
	na := st.na
	return func() {
		post := x.regionRecord(st, af[1])
		if post != pre {
			x.assume("", "("+af[0]+" "+pre+" "+post+" "+na+")")
		}
	}
}

// ---------------------------------------------------------------- helpers

func and(parts ...string) string {
	var ps []string
	for _, p := range parts {
		if p == "true" || p == "" {
			continue
		}
		if p == "false" {
			return "false"
		}
		ps = append(ps, p)
	}
	switch len(ps) {
	case 0:
		return "true"
	case 1:
		return ps[0]
	}
	return "(and " + strings.Join(ps, " ") + ")"
}

func or(parts ...string) string {
	var ps []string
	for _, p := range parts {
		if p == "false" || p == "" {
			continue
		}
		if p == "true" {
			return "true"
		}
		ps = append(ps, p)
	}
	switch len(ps) {
	case 0:
		return "false"
	case 1:
		return ps[0]
	}
	return "(or " + strings.Join(ps, " ") + ")"
}

func not(p string) string {
	switch p {
	case "true":
		return "false"
	case "false":
		return "true"
	}
	return "(not " + p + ")"
}

func smtInt(v int64) string {
	if v < 0 {
		if v == -9223372036854775808 {
			return "(- 9223372036854775808)"
		}
		return "(- " + strconv.FormatInt(-v, 10) + ")"
	}
	return strconv.FormatInt(v, 10)
}

// ---------------------------------------------------------------- value lookup

func (x *Exec) val(fr *frame, v ssa.Value, st *State) sval {
	switch c := v.(type) {
	case *ssa.Const:
		return sval{t: x.constTerm(c)}
	case *ssa.Global:
		// pointer to a global cell: handled at load/store by type switch
		comp := x.so.globalComp(c.Pkg.Pkg.Path()+"."+c.Name(), c.Type().(*types.Pointer).Elem())
		if x.eng.nonNilGlobals[c] {
			if x.eng.nonNilComps == nil {
				x.eng.nonNilComps = map[string]bool{}
			}
			x.eng.nonNilComps[comp] = true
		}
		return sval{t: "0", loc: &Loc{Kind: "global", Comp: comp, ElemT: c.Type().(*types.Pointer).Elem()}}
	case *ssa.Function:
		return sval{t: strconv.Itoa(1000000 + x.eng.typeID("fn:"+c.String())), clo: &closure{fn: c}}
	case *ssa.Builtin:
		return sval{t: "0"}
	}
	if sv, ok := fr.vals[v]; ok {
		return sv
	}
	// free variable of an enclosing closure executed as top-level function
	s := x.freshConst("undef_"+v.Name(), x.so.sortOf(v.Type()))
	x.note("value used before definition: " + v.Name() + " in " + fr.fn.String())
	x.curTaint = true
	sv := sval{t: s}
	fr.vals[v] = sv
	return sv
}

func (x *Exec) constTerm(c *ssa.Const) string {
	t := c.Type()
	if c.Value == nil {
		return x.so.zeroOf(t)
	}
	switch c.Value.Kind() {
	case constant.Bool:
		if constant.BoolVal(c.Value) {
			return "true"
		}
		return "false"
	case constant.Int:
		s := c.Value.ExactString()
		if strings.HasPrefix(s, "-") {
			return "(- " + s[1:] + ")"
		}
		return s
	case constant.String:
		return x.eng.stringConst(x, constant.StringVal(c.Value))
	case constant.Float:
		f, _ := constant.Float64Val(c.Value)
		return strconv.FormatFloat(f, 'f', -1, 64)
	}
	return x.so.zeroOf(t)
}

// ---------------------------------------------------------------- load/store

func (x *Exec) fieldGet(rec string, path []FieldStep) string {
	t := rec
	for _, p := range path {
		t = "(" + p.SI.Fields[p.Idx].Acc + " " + t + ")"
	}
	return t
}

func (x *Exec) fieldSet(rec string, path []FieldStep, val string) string {
	if len(path) == 0 {
		return val
	}
	p := path[0]
	parts := []string{"(mk_" + p.SI.Name}
	for i, f := range p.SI.Fields {
		if i == p.Idx {
			inner := "(" + f.Acc + " " + rec + ")"
			parts = append(parts, x.fieldSet(inner, path[1:], val))
		} else {
			parts = append(parts, "("+f.Acc+" "+rec+")")
		}
	}
	return strings.Join(parts, " ") + ")"
}

func (x *Exec) load(fr *frame, addr sval, ptrT types.Type, st *State, reach string, pos token.Pos) sval {
	elemT := ptrT.Underlying().(*types.Pointer).Elem()
	var term string
	bound := st.na
	useSym := func(comp string) string {
		sym := st.get(comp)
		if b, ok := x.symNa[sym]; ok {
			bound = b
		}
		return sym
	}
	if addr.loc != nil {
		l := addr.loc
		switch l.Kind {
		case "field":
			term = x.fieldGet("(select "+useSym(l.Comp)+" "+l.Obj+")", l.Path)
		case "elem":
			term = "(select (select " + useSym(l.Comp) + " " + l.Base + ") " + l.Idx + ")"
			if len(l.Path) > 0 {
				term = x.fieldGet(term, l.Path)
			}
		case "global":
			term = useSym(l.Comp)
			if len(l.Path) > 0 {
				term = x.fieldGet(term, l.Path)
			}
			if x.eng.nonNilComps[l.Comp] {
				x.assume("", "(not (= "+term+" 0))")
				x.note("package-level error sentinels assigned once in the package initialiser are non-nil")
			}
		}
	} else {
		x.oblige("safety", "nil:load:"+typeKey(elemT), reach, "(not (= "+addr.t+" 0))", "nil pointer dereference (load)", pos)
		switch elemT.Underlying().(type) {
		case *types.Struct:
			term = "(select " + st.get(x.so.structComp(elemT)) + " " + addr.t + ")"
		case *types.Array:
			term = "(select " + st.get(x.so.elemComp(elemT.Underlying().(*types.Array).Elem())) + " " + addr.t + ")"
		default:
			term = "(select " + st.get(x.so.cellComp(elemT)) + " " + addr.t + ")"
		}
	}
	s := x.define("ld", x.so.sortOf(elemT), term)
	for _, f := range x.so.typeFacts(s, elemT, bound) {
		x.assume(reach, f)
	}
	x.markNamed(s, elemT)
	if addr.loc != nil && addr.loc.Kind == "field" && len(addr.loc.Path) == 1 {
		if g, ok := x.eng.onStoreFlag[addr.loc.Comp+"."+addr.loc.Path[0].SI.Fields[addr.loc.Path[0].Idx].Acc]; ok {
			// the ghost flag mirrors the field exactly (every store updates it)
			x.assume(reach, "(= (not (= "+s+" 0)) (select "+st.get("G_"+g)+" "+addr.loc.Obj+"))")
		}
	}
	sv := sval{t: s}
	if _, isFn := elemT.Underlying().(*types.Signature); isFn {
		key := x.addrKey(addr)
		if c, ok := x.cellClo[key]; ok {
			sv.clo = c
		}
	}
	return sv
}

func (x *Exec) addrKey(addr sval) string {
	if addr.loc != nil {
		return addr.loc.Kind + ":" + addr.loc.Comp + ":" + addr.loc.Obj + ":" + addr.loc.Base + ":" + addr.loc.Idx + fmt.Sprint(len(addr.loc.Path))
	}
	return "p:" + addr.t
}

func (x *Exec) store(fr *frame, addr sval, ptrT types.Type, v sval, st *State, reach string, pos token.Pos) {
	elemT := ptrT.Underlying().(*types.Pointer).Elem()
	upd := func(comp, newTerm string) {
		srt := x.so.comps[comp]
		cur := st.get(comp)
		n := x.define(comp, srt, newTerm)
		_ = cur
		st.set(comp, n)
	}
	if v.clo != nil {
		x.cellClo[x.addrKey(addr)] = v.clo
	}
	if addr.loc != nil {
		l := addr.loc
		switch l.Kind {
		case "field":
			cur := st.get(l.Comp)
			rec := "(select " + cur + " " + l.Obj + ")"
			sf, hasSF := x.eng.storeFacts[l.Comp]
			if hasSF {
				if x.pending != nil && (x.pending.obj != l.Obj || x.pending.comp != l.Comp) {
					x.flushStores(st, reach)
				}
				if x.pending == nil {
					x.pending = &pendingStore{comp: l.Comp, obj: l.Obj, before: x.predArgs(sf.Args, st), sf: sf}
				}
			}
			upd(l.Comp, "(store "+cur+" "+l.Obj+" "+x.fieldSet(rec, l.Path, v.t)+")")
			if len(l.Path) == 1 {
				if g, ok := x.eng.onStoreFlag[l.Comp+"."+l.Path[0].SI.Fields[l.Path[0].Idx].Acc]; ok {
					gc := "G_" + g
					gcur := st.get(gc)
					st.set(gc, x.define(gc, x.so.comps[gc], "(store "+gcur+" "+l.Obj+" (not (= "+v.t+" 0)))"))
				}
				if g, ok := x.eng.onStore[l.Comp+"."+l.Path[0].SI.Fields[l.Path[0].Idx].Acc]; ok {
					gc := "G_" + g
					gcur := st.get(gc)
					st.set(gc, x.define(gc, x.so.comps[gc], "(ite (= "+v.t+" 0) "+gcur+" (store "+gcur+" "+v.t+" true))"))
				}
			}

		case "elem":
			cur := st.get(l.Comp)
			nv := v.t
			if len(l.Path) > 0 {
				nv = x.fieldSet("(select (select "+cur+" "+l.Base+") "+l.Idx+")", l.Path, v.t)
			}
			upd(l.Comp, "(store "+cur+" "+l.Base+" (store (select "+cur+" "+l.Base+") "+l.Idx+" "+nv+"))")
		case "global":
			cur := st.get(l.Comp)
			nv := v.t
			if len(l.Path) > 0 {
				nv = x.fieldSet(cur, l.Path, v.t)
			}
			n := x.define(l.Comp, x.so.comps[l.Comp], nv)
			st.set(l.Comp, n)
		}
		return
	}
	x.oblige("safety", "nil:store:"+typeKey(elemT), reach, "(not (= "+addr.t+" 0))", "nil pointer dereference (store)", pos)
	var comp string
	switch elemT.Underlying().(type) {
	case *types.Struct:
		comp = x.so.structComp(elemT)
	case *types.Array:
		comp = x.so.elemComp(elemT.Underlying().(*types.Array).Elem())
	default:
		comp = x.so.cellComp(elemT)
	}
	upd(comp, "(store "+st.get(comp)+" "+addr.t+" "+v.t+")")
}

// alloc creates a fresh object id.
func (x *Exec) allocRef(st *State, base string) string {
	r := x.define(base, "Int", st.na)
	st.na = x.define("na", "Int", "(+ "+r+" 1)")
	return r
}

// ---------------------------------------------------------------- state merge

type edge struct {
	cond string
	st   *State
	from *ssa.BasicBlock
}

func (x *Exec) mergeStates(edges []edge) *State {
	if len(edges) == 1 {
		return edges[0].st.clone()
	}
	out := &State{x: x, m: map[string]string{}}
	keys := map[string]bool{}
	for _, e := range edges {
		for k := range e.st.m {
			keys[k] = true
		}
		if e.st.tainted {
			out.tainted = true
		}
	}
	var ks []string
	for k := range keys {
		ks = append(ks, k)
	}
	sort.Strings(ks)
	for _, k := range ks {
		same := true
		first := edges[0].st.get(k)
		vals := []string{first}
		for _, e := range edges[1:] {
			v := e.st.get(k)
			vals = append(vals, v)
			if v != first {
				same = false
			}
		}
		if same {
			out.m[k] = first
			continue
		}
		term := vals[len(vals)-1]
		for i := len(vals) - 2; i >= 0; i-- {
			term = "(ite " + edges[i].cond + " " + vals[i] + " " + term + ")"
		}
		out.m[k] = x.define(k, x.so.comps[k], term)
	}
	// region records of the merged state equal the record of the taken edge
	for region := range x.eng.regions {
		used := false
		for k := range x.regCache {
			if strings.HasPrefix(k, region+":") {
				used = true
				break
			}
		}
		if !used {
			continue
		}
		ok := true
		for _, c := range x.eng.regions[region] {
			if _, known := x.so.comps[c]; !known {
				ok = false
			}
		}
		if !ok {
			continue
		}
		mrec := x.regionRecord(out, region)
		for _, e := range edges {
			erec := x.regionRecord(e.st, region)
			if erec != mrec {
				x.emit("(assert (=> " + e.cond + " (= " + mrec + " " + erec + ")))")
			}
		}
	}
	// na
	same := true
	for _, e := range edges[1:] {
		if e.st.na != edges[0].st.na {
			same = false
		}
	}
	if same {
		out.na = edges[0].st.na
	} else {
		term := edges[len(edges)-1].st.na
		for i := len(edges) - 2; i >= 0; i-- {
			term = "(ite " + edges[i].cond + " " + edges[i].st.na + " " + term + ")"
		}
		out.na = x.define("na", "Int", term)
	}
	return out
}

// ---------------------------------------------------------------- CFG analysis

type cfgInfo struct {
	order     []*ssa.BasicBlock
	backEdge  map[[2]int]bool
	loopHeads map[*ssa.BasicBlock]bool
	loopBody  map[*ssa.BasicBlock]map[*ssa.BasicBlock]bool
	loopOrd   map[*ssa.BasicBlock]int
}

func analyzeCFG(fn *ssa.Function) *cfgInfo {
	ci := &cfgInfo{backEdge: map[[2]int]bool{}, loopHeads: map[*ssa.BasicBlock]bool{}, loopBody: map[*ssa.BasicBlock]map[*ssa.BasicBlock]bool{}, loopOrd: map[*ssa.BasicBlock]int{}}
	for _, b := range fn.Blocks {
		for _, s := range b.Succs {
			if s.Dominates(b) {
				ci.backEdge[[2]int{b.Index, s.Index}] = true
				ci.loopHeads[s] = true
			}
		}
	}
	// loop bodies
	for h := range ci.loopHeads {
		body := map[*ssa.BasicBlock]bool{h: true}
		var stack []*ssa.BasicBlock
		for _, b := range fn.Blocks {
			if ci.backEdge[[2]int{b.Index, h.Index}] {
				if !body[b] {
					body[b] = true
					stack = append(stack, b)
				}
			}
		}
		for len(stack) > 0 {
			b := stack[len(stack)-1]
			stack = stack[:len(stack)-1]
			for _, p := range b.Preds {
				if !body[p] {
					body[p] = true
					stack = append(stack, p)
				}
			}
		}
		ci.loopBody[h] = body
	}
	// ordinals by block index
	var heads []*ssa.BasicBlock
	for h := range ci.loopHeads {
		heads = append(heads, h)
	}
	sort.Slice(heads, func(i, j int) bool { return heads[i].Index < heads[j].Index })
	for i, h := range heads {
		ci.loopOrd[h] = i + 1
	}
	// reverse post-order ignoring back edges
	visited := map[*ssa.BasicBlock]bool{}
	var post []*ssa.BasicBlock
	var dfs func(b *ssa.BasicBlock)
	dfs = func(b *ssa.BasicBlock) {
		visited[b] = true
		for _, s := range b.Succs {
			if ci.backEdge[[2]int{b.Index, s.Index}] || visited[s] {
				continue
			}
			dfs(s)
		}
		post = append(post, b)
	}
	if len(fn.Blocks) > 0 {
		dfs(fn.Blocks[0])
	}
	for i := len(post) - 1; i >= 0; i-- {
		ci.order = append(ci.order, post[i])
	}
	return ci
}

// ---------------------------------------------------------------- function execution

type retInfo struct {
	nonNil map[int]bool // result positions syntactically known to be non-nil (if x != nil { return ..., x })
	block int
	cond string
	vals []sval
	st   *State
}

// execBody runs the body of fr.fn from state st0 under reach0; returns the
// merged return values, the merged final state and the return reachability.
func (x *Exec) execBody(fr *frame, st0 *State, reach0 string) ([]sval, *State, string) {
	fn := fr.fn
	ci := analyzeCFG(fn)
	var ct *Contract
	if fr.top {
		ct = x.ct
	} else {
		ct = x.eng.contracts[fn.String()]
	}
	edges := map[*ssa.BasicBlock][]edge{}
	var rets []retInfo
	for _, b := range ci.order {
		var reach string
		var st *State
		if fr.top {
			x.curBlock = b.Index
		}
		if b == fn.Blocks[0] {
			reach = reach0
			st = st0.clone()
		} else {
			es := edges[b]
			if len(es) == 0 {
				continue // unreachable (e.g. after panic)
			}
			var cs []string
			for _, e := range es {
				cs = append(cs, e.cond)
			}
			reach = x.define("R_"+fr.prefix+strconv.Itoa(b.Index), "Bool", or(cs...))
			st = x.mergeStates(es)
		}
		isHead := ci.loopHeads[b]
		var lspec *LoopSpec
		if isHead && ct != nil {
			lspec = ct.Loops[ci.loopOrd[b]]
			if lspec == nil && x.errflow && fr.top {
				lspec = &LoopSpec{Invariants: []Clause{{Label: "nofault", Text: "old(fault) == fault", File: "(generic)"}}}
				ct.Loops[ci.loopOrd[b]] = lspec
			}
		}
		// phis
		instrs := b.Instrs
		k := 0
		if isHead {
			// 1. check invariants on entry
			entryEnv := func(useEdges []edge, curSt *State) *Env {
				env := x.loopEnv(fr, b, curSt, st0)
				return env
			}
			// bind phis to merged entry values first
			es := edges[b]
			for ; k < len(instrs); k++ {
				phi, ok := instrs[k].(*ssa.Phi)
				if !ok {
					break
				}
				fr.vals[phi] = x.phiValue(fr, phi, es, st)
			}
			if lspec != nil {
				env := entryEnv(es, st)
				for i, inv := range lspec.Invariants {
					t, err := env.trClause(inv.Text)
					if err != nil {
						x.eng.specError(inv, err)
						continue
					}
					lab := inv.Label
					if lab == "" {
						lab = strconv.Itoa(i + 1)
					}
					x.oblige("inv-entry", fmt.Sprintf("loop%d:%s", ci.loopOrd[b], lab), reach, t, "loop invariant holds on entry: "+inv.Text, b.Instrs[0].Pos())
				}
			}
			// 2. havoc
			ws := x.eng.loopWriteSet(fn, ci.loopBody[b])
			if x.errflow {
				ws = &WriteSet{Comps: map[string]bool{"G_parked": true}}
			}
			if fr.top && ct != nil && !ws.Top && x.topEnv != nil && !x.sweep {
				// the function's frame (modifies clause) is an implicit loop invariant
				x.loopFrame(ct, ws, st0, st, reach, true, fmt.Sprintf("loop%d", ci.loopOrd[b]), "inv-entry")
			}
			if x.errflow {
				st = x.havocHeapKeepGhosts(st, map[string]bool{"fault": true, "parked": true})
			} else {
				st = x.havocForWrites(st, ws, "loop")
			}
			if fr.top && ct != nil && !ws.Top && x.topEnv != nil && !x.sweep {
				x.loopFrame(ct, ws, st0, st, reach, false, "", "")
			}
			if fr.top {
				// visited sets of map iterations running in this loop: unknown at the head, the invariants say what is known
				for _, c := range x.so.sortedComps() {
					if strings.HasPrefix(c, "L_vis_") {
						if _, ok := st.m[c]; ok {
							st.set(c, x.freshConst(c+"_hv", x.so.comps[c]))
						}
					}
				}
				// call counters: whatever the body calls, the count only grows
				for target, comp := range x.callCount {
					if !x.loopCallsTarget(fn, ci.loopBody[b], target) {
						continue // no such call in this loop: the count is what it was
					}
					prev := st.get(comp)
					nv := x.freshConst("calls_hv", "Int")
					x.assume("", "(>= "+nv+" "+prev+")")
					st.set(comp, nv)
				}
				// allok accumulators: once false, false for good
				for target, a := range x.accWant {
					if !x.loopCallsTarget(fn, ci.loopBody[b], target) {
						continue
					}
					prev := st.get(a.comp)
					nv := x.freshConst("allok_hv", "Bool")
					x.assume("", "(=> "+nv+" "+prev+")")
					st.set(a.comp, nv)
				}
			}
			for kk := 0; kk < k; kk++ {
				phi := instrs[kk].(*ssa.Phi)
				s := x.freshConst("phi_"+phi.Comment, x.so.sortOf(phi.Type()))
				for _, f := range x.so.typeFacts(s, phi.Type(), st.na) {
					x.assume(reach, f)
				}
				fr.vals[phi] = sval{t: s}
			}
			if lspec != nil {
				env := x.loopEnv(fr, b, st, st0)
				for _, inv := range lspec.Invariants {
					t, err := env.trClause(inv.Text)
					if err != nil {
						continue
					}
					x.assume(reach, t)
				}
			}
			if fr.top {
				if x.headSt == nil {
					x.headSt = map[int]*State{}
				}
				x.headSt[ci.loopOrd[b]] = st.clone()
			}
		} else {
			es := edges[b]
			for ; k < len(instrs); k++ {
				phi, ok := instrs[k].(*ssa.Phi)
				if !ok {
					break
				}
				fr.vals[phi] = x.phiValue(fr, phi, es, st)
			}
		}
		// body
		alive := true
		for ; k < len(instrs) && alive; k++ {
			ins := instrs[k]
			switch ins.(type) {
			case *ssa.Store, *ssa.FieldAddr, *ssa.DebugRef, *ssa.IndexAddr, *ssa.Alloc:
			default:
				x.flushStores(st, reach)
			}
			switch t := ins.(type) {
			case *ssa.If:
				c := x.val(fr, t.Cond, st).t
				cT := x.define("E_"+fr.prefix+strconv.Itoa(b.Index)+"t", "Bool", and(reach, c))
				cF := x.define("E_"+fr.prefix+strconv.Itoa(b.Index)+"f", "Bool", and(reach, not(c)))
				x.addEdge(fr, ci, ct, edges, b, b.Succs[0], cT, st, st0)
				x.addEdge(fr, ci, ct, edges, b, b.Succs[1], cF, st, st0)
			case *ssa.Jump:
				x.addEdge(fr, ci, ct, edges, b, b.Succs[0], reach, st, st0)
			case *ssa.Return:
				var vs []sval
				nn := map[int]bool{}
				for i, r := range t.Results {
					vs = append(vs, x.val(fr, r, st))
					if len(b.Preds) == 1 {
						if iff, ok := b.Preds[0].Instrs[len(b.Preds[0].Instrs)-1].(*ssa.If); ok && b.Preds[0].Succs[0] == b {
							if bo, ok := iff.Cond.(*ssa.BinOp); ok && bo.Op == token.NEQ && isNilConst(bo.Y) && bo.X == r {
								nn[i] = true
							}
						}
					}
					if u, ok := r.(*ssa.UnOp); ok && u.Op == token.MUL {
						if g, ok := u.X.(*ssa.Global); ok && x.eng.nonNilGlobals[g] {
							nn[i] = true
						}
					}
				}
				rets = append(rets, retInfo{block: x.curBlock, cond: reach, vals: vs, st: st, nonNil: nn})
			case *ssa.Panic:
				if ct == nil || !ct.MayPanic {
					x.oblige("safety", "panic", reach, "false", "explicit panic is unreachable", t.Pos())
				}
				alive = false
			default:
				st = x.execInstr(fr, ins, st, reach)
			}
		}
	}
	if fr.top {
		x.topRets = rets
	}
	if len(rets) == 0 {
		return nil, st0, "false"
	}
	if len(rets) == 1 {
		return rets[0].vals, rets[0].st, rets[0].cond
	}
	var es []edge
	var cs []string
	for _, r := range rets {
		es = append(es, edge{cond: r.cond, st: r.st})
		cs = append(cs, r.cond)
	}
	stOut := x.mergeStates(es)
	n := len(rets[0].vals)
	out := make([]sval, n)
	for i := 0; i < n; i++ {
		term := rets[len(rets)-1].vals[i].t
		same := true
		for j := len(rets) - 2; j >= 0; j-- {
			if rets[j].vals[i].t != term {
				same = false
			}
		}
		if !same {
			term = rets[len(rets)-1].vals[i].t
			for j := len(rets) - 2; j >= 0; j-- {
				term = "(ite " + rets[j].cond + " " + rets[j].vals[i].t + " " + term + ")"
			}
			term = x.define("ret"+strconv.Itoa(i), x.so.sortOf(fn.Signature.Results().At(i).Type()), term)
		}
		out[i] = sval{t: term}
	}
	reachOut := x.define("Rret_"+fr.prefix, "Bool", or(cs...))
	return out, stOut, reachOut
}

func (x *Exec) phiValue(fr *frame, phi *ssa.Phi, es []edge, st *State) sval {
	b := phi.Block()
	// map pred block -> operand
	type pv struct {
		cond string
		v    sval
	}
	var pvs []pv
	for _, e := range es {
		for i, p := range b.Preds {
			if p == e.from {
				pvs = append(pvs, pv{e.cond, x.val(fr, phi.Edges[i], st)})
				break
			}
		}
	}
	if len(pvs) == 0 {
		return sval{t: x.freshConst("phi_"+phi.Comment, x.so.sortOf(phi.Type()))}
	}
	same := true
	for _, p := range pvs[1:] {
		if p.v.t != pvs[0].v.t {
			same = false
		}
	}
	if same {
		return pvs[0].v
	}
	term := pvs[len(pvs)-1].v.t
	for i := len(pvs) - 2; i >= 0; i-- {
		term = "(ite " + pvs[i].cond + " " + pvs[i].v.t + " " + term + ")"
	}
	out := sval{t: x.define("phi_"+phi.Comment, x.so.sortOf(phi.Type()), term)}
	x.markNamed(out.t, phi.Type())
	for _, p := range pvs {
		if p.v.loc != nil {
			x.note("phi over interior pointers in " + fr.fn.String())
			x.curTaint = true
		}
		if p.v.clo != nil {
			out.clo = p.v.clo
		}
	}
	return out
}

// addEdge records a CFG edge, or — for a back edge — checks the loop
// invariant of the target head.
func (x *Exec) addEdge(fr *frame, ci *cfgInfo, ct *Contract, edges map[*ssa.BasicBlock][]edge, from, to *ssa.BasicBlock, cond string, st *State, st0 *State) {
	if ci.backEdge[[2]int{from.Index, to.Index}] {
		var lspec *LoopSpec
		if ct != nil {
			lspec = ct.Loops[ci.loopOrd[to]]
		}
		if lspec == nil {
			lspec = &LoopSpec{}
		}
		// evaluate invariant with phis bound to the back-edge values
		saved := map[*ssa.Phi]sval{}
		var decrOld string
		if lspec.Decreases != nil {
			env := x.loopEnv(fr, to, st, st0) // phis still bound to iteration-start values; state irrelevant for pure measures
			tv, err := env.trTerm(lspec.Decreases.Text)
			if err == nil {
				decrOld = tv.T
			}
		}
		for _, ins := range to.Instrs {
			phi, ok := ins.(*ssa.Phi)
			if !ok {
				break
			}
			saved[phi] = fr.vals[phi]
			for i, p := range to.Preds {
				if p == from {
					fr.vals[phi] = x.val(fr, phi.Edges[i], st)
				}
			}
		}
		env := x.loopEnv(fr, to, st, st0)
		if fr.top && ct != nil && x.topEnv != nil && !x.sweep {
			ws := x.eng.loopWriteSet(fr.fn, ci.loopBody[to])
			if x.errflow {
				ws = &WriteSet{Comps: map[string]bool{"G_parked": true}}
			}
			if !ws.Top {
				x.loopFrame(ct, ws, st0, st, cond, true, fmt.Sprintf("loop%d", ci.loopOrd[to]), "inv-preserve")
			}
		}
		for i, inv := range lspec.Invariants {
			t, err := env.trClause(inv.Text)
			if err != nil {
				continue
			}
			lab := inv.Label
			if lab == "" {
				lab = strconv.Itoa(i + 1)
			}
			x.oblige("inv-preserve", fmt.Sprintf("loop%d:%s", ci.loopOrd[to], lab), cond, t, "loop invariant preserved: "+inv.Text, from.Instrs[len(from.Instrs)-1].Pos())
		}
		if lspec.Decreases != nil && decrOld != "" {
			tv, err := env.trTerm(lspec.Decreases.Text)
			if err == nil {
				x.oblige("decr", fmt.Sprintf("loop%d", ci.loopOrd[to]), cond, "(and (<= 0 "+decrOld+") (< "+tv.T+" "+decrOld+"))", "loop variant decreases: "+lspec.Decreases.Text, from.Instrs[len(from.Instrs)-1].Pos())
			}
		}
		for phi, v := range saved {
			fr.vals[phi] = v
		}
		return
	}
	edges[to] = append(edges[to], edge{cond: cond, st: st, from: from})
}

// loopEnv builds the name environment for a loop invariant at head b.
func (x *Exec) loopEnv(fr *frame, head *ssa.BasicBlock, st *State, st0 *State) *Env {
	env := x.baseEnv(fr, st, st0)
	fn := fr.fn
	// debug refs dominating the head
	for _, b := range fn.Blocks {
		if !(b.Dominates(head)) || b == head {
			continue
		}
		for _, ins := range b.Instrs {
			if d, ok := ins.(*ssa.DebugRef); ok && !d.IsAddr {
				if obj := d.Object(); obj != nil {
					if sv, ok := fr.vals[d.X]; ok {
						env.vars[obj.Name()] = TVal{T: sv.t, Sort: x.so.sortOf(d.X.Type()), Ty: d.X.Type()}
					} else if c, ok := d.X.(*ssa.Const); ok {
						env.vars[obj.Name()] = TVal{T: x.constTerm(c), Sort: x.so.sortOf(c.Type()), Ty: c.Type()}
					}
				}
			}
		}
	}
	for _, ins := range head.Instrs {
		phi, ok := ins.(*ssa.Phi)
		if !ok {
			break
		}
		if sv, ok := fr.vals[phi]; ok && phi.Comment != "" {
			env.vars[phi.Comment] = TVal{T: sv.t, Sort: x.so.sortOf(phi.Type()), Ty: phi.Type()}
		}
	}
	// address-taken locals: current cell contents
	for _, l := range fn.Locals {
		if l.Comment == "" {
			continue
		}
		if sv, ok := fr.vals[l]; ok {
			et := l.Type().(*types.Pointer).Elem()
			if _, isStruct := et.Underlying().(*types.Struct); isStruct {
				env.vars[l.Comment] = TVal{T: sv.t, Sort: "Int", Ty: l.Type()}
			} else if _, isArr := et.Underlying().(*types.Array); !isArr {
				if _, exists := env.vars[l.Comment]; !exists {
					env.vars[l.Comment] = TVal{T: "(select " + st.get(x.so.cellComp(et)) + " " + sv.t + ")", Sort: x.so.sortOf(et), Ty: et}
				}
			}
		}
	}
	return env
}

// baseEnv: parameters (and free variables) of the top function.
func (x *Exec) baseEnv(fr *frame, st *State, old *State) *Env {
	env := &Env{x: x, vars: map[string]TVal{}, st: st, old: old, bound: map[string]string{}}
	if fr.fn.Pkg != nil {
		env.pkg = fr.fn.Pkg.Pkg
	} else if fr.fn.Parent() != nil && fr.fn.Parent().Pkg != nil {
		env.pkg = fr.fn.Parent().Pkg.Pkg
	}
	for k, v := range x.paramEnv {
		env.vars[k] = v
	}
	return env
}

// loopFrame checks or assumes, for every component written in a loop, that
// relative to the function entry only the locations of the function's
// modifies clause changed (an implicit loop invariant).
func (x *Exec) loopFrame(ct *Contract, ws *WriteSet, st0, cur *State, reach string, check bool, tag, kind string) {
	if hasStar(ct.Modifies) {
		return
	}
	locs := x.parseModifies(ct, x.topEnv)
	for _, c := range ws.sorted() {
		if _, ok := x.so.comps[c]; !ok {
			continue
		}
		if x.errflow && c != "G_parked" {
			continue
		}
		o, n := st0.get(c), cur.get(c)
		if o == n {
			continue
		}
		f := x.frameFormula(c, locs, o, n, st0.na, !check)
		if f == "" {
			continue
		}
		if check {
			x.oblige(kind, tag+":frame:"+c, reach, f, "implicit loop invariant: only declared locations of "+c+" are modified", token.NoPos)
		} else {
			x.assume(reach, f)
		}
	}
}

type pendingStore struct {
	comp, obj string
	before    []string
	sf        predApp
}

// flushStores emits the store fact for the run of stores into one object
// that has just ended.
func (x *Exec) flushStores(st *State, reach string) {
	if x.pending == nil {
		return
	}
	p := x.pending
	x.pending = nil
	after := x.regionRecord(st, p.sf.Args[0])
	x.assume(reach, "("+p.sf.Pred+" "+strings.Join(p.before, " ")+" "+after+" "+p.obj+")")
	x.assumeStateInvs(st, "")
}

// predArgs renders the state-dependent arguments of a predApp.
func (x *Exec) predArgs(args []string, st *State) []string {
	var out []string
	for _, a := range args {
		switch {
		case a == "na":
			out = append(out, st.na)
		case strings.HasPrefix(a, "ghost:"):
			out = append(out, st.get("G_"+strings.TrimPrefix(a, "ghost:")))
		case a == "BM":
			out = append(out, st.get("BM"))
		default:
			out = append(out, x.regionRecord(st, a))
		}
	}
	return out
}

// assumeStateInvs: invariants of the instrumented semantics (maintained by
// construction by the engine's ghost updates) hold in every state.
func (x *Exec) assumeStateInvs(st *State, guard string) {
	for _, si := range x.eng.stateInvs {
		x.assume(guard, "("+si.Pred+" "+strings.Join(x.predArgs(si.Args, st), " ")+")")
	}
}

// havocHeapKeepGhosts: every heap component gets a fresh symbol, ghost
// components only if named in modGhosts (error-flow mode: data is abstracted).
func (x *Exec) havocHeapKeepGhosts(st *State, modGhosts map[string]bool) *State {
	n := st.clone()
	for _, c := range x.so.sortedComps() {
		if strings.HasPrefix(c, "L_") {
			continue
		}
		if strings.HasPrefix(c, "G_") {
			if modGhosts[strings.TrimPrefix(c, "G_")] {
				st.get(c)
				n.m[c] = x.freshConst(c+"_hv", x.so.comps[c])
			}
			continue
		}
		n.m[c] = x.freshConst(c+"_hv", x.so.comps[c])
	}
	for g := range modGhosts {
		c := "G_" + g
		if _, ok := x.so.comps[c]; !ok {
			if srt, ok := x.eng.ghosts[g]; ok {
				x.so.addComp(c, srt)
				st.get(c)
				n.m[c] = x.freshConst(c+"_hv", srt)
			}
		}
	}
	n.tainted = true
	na := x.freshConst("na", "Int")
	x.assume("", "(>= "+na+" "+st.na+")")
	n.na = na
	return n
}

// havocForWrites gives fresh symbols to the components in ws (or all).
func (x *Exec) havocForWrites(st *State, ws *WriteSet, why string) *State {
	n := st.clone()
	if ws.Top {
		for _, c := range x.so.sortedComps() {
			if strings.HasPrefix(c, "L_") {
				continue // non-escaping locals cannot be written by anybody else
			}
			n.m[c] = x.freshConst(c+"_hv", x.so.comps[c])
			if accs := x.eng.initOnlyFields()[c]; len(accs) > 0 && !x.errflow {
				// init-only fields of objects that already exist survive unknown code
				o := st.get(c)
				var conj []string
				for _, a := range accs {
					conj = append(conj, "(= ("+a+" (select "+n.m[c]+" r!)) ("+a+" (select "+o+" r!)))")
				}
				x.assume("", "(forall ((r! Int)) (! (=> (and (< 0 r!) (< r! "+st.na+")) "+and(conj...)+") :pattern ((select "+n.m[c]+" r!))))")
			}
		}
		n.tainted = true
	} else {
		for _, c := range ws.sorted() {
			if strings.HasPrefix(c, "L?") {
				// local cell written in a loop: every instance (inlined copies included)
				suf := strings.TrimPrefix(c, "L?")
				for _, lc := range x.so.sortedComps() {
					if strings.HasPrefix(lc, "L_") && strings.HasSuffix(lc, suf) {
						if _, ok := st.m[lc]; ok {
							n.m[lc] = x.freshConst(lc+"_hv", x.so.comps[lc])
						}
					}
				}
				continue
			}
			if _, ok := x.so.comps[c]; !ok {
				if strings.HasPrefix(c, "G_") {
					x.so.addComp(c, x.eng.ghosts[strings.TrimPrefix(c, "G_")])
				} else {
					continue
				}
			}
			st.get(c) // make sure the entry symbol exists if it was never touched
			n.m[c] = x.freshConst(c+"_hv", x.so.comps[c])
		}
	}
	na := x.freshConst("na", "Int")
	x.assume("", "(>= "+na+" "+st.na+")")
	n.na = na
	x.assumeStateInvs(n, "")
	return n
}

// loopCallsTarget: does the loop body contain a call that matches target[@k]?
func (x *Exec) loopCallsTarget(fn *ssa.Function, body map[*ssa.BasicBlock]bool, target string) bool {
	for _, b := range fn.Blocks {
		if !body[b] {
			continue
		}
		for _, ins := range b.Instrs {
			ci, ok := ins.(ssa.CallInstruction)
			if !ok {
				continue
			}
			if x.siteMatch(fn, target, callsiteName(ci.Common()), ins.Pos()) {
				return true
			}
		}
	}
	return false
}
