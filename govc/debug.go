package main

import (
	"fmt"
	"sort"
	"strings"

	"golang.org/x/tools/go/ssa"
)

// cmdInvokes lists interface-method call keys used by repository functions.
func cmdInvokes(args []string) int {
	e, err := loadEngine("/repo", "/verif", defaultPatterns, nil)
	if err != nil {
		fmt.Println(err)
		return 3
	}
	cnt := map[string]int{}
	for k, fn := range e.fns {
		if !strings.Contains(k, "github.com/cosmos/iavl") || !errflowScope(fn, e) {
			continue
		}
		for _, b := range fn.Blocks {
			for _, ins := range b.Instrs {
				if c, ok := ins.(ssa.CallInstruction); ok {
					cc := c.Common()
					if cc.IsInvoke() {
						cnt["("+cc.Value.Type().String()+")."+cc.Method.Name()+"   ["+cc.Method.FullName()+"]"]++
					} else if f := cc.StaticCallee(); f != nil && len(f.Blocks) == 0 {
						cnt["extern "+f.String()]++
					} else if f == nil {
						if _, isB := cc.Value.(*ssa.Builtin); !isB {
							cnt["dynamic call in "+shortKey(k)]++
						}
					}
				}
			}
		}
	}
	var ks []string
	for k := range cnt {
		ks = append(ks, k)
	}
	sort.Strings(ks)
	for _, k := range ks {
		fmt.Printf("%4d %s\n", cnt[k], k)
	}
	return 0
}
