package main

import (
	"fmt"
	"go/types"
	"os"
	"sort"

	"golang.org/x/tools/go/ssa"
)

// Init-only fields.
//
// A field f of a struct type T is init-only when no code of the program can
// change it in an object that already exists: T is an unexported named struct
// type of the repository, f is unexported, T does not occur in the exported
// API (so code outside the package cannot obtain two *T to copy one over the
// other), and inside the repository every store into f, every whole-struct
// store of a T and every escaping &x.f goes through an object the storing
// function allocated itself.  Unknown code (a callback supplied by the user,
// a dynamic call the engine cannot resolve) therefore leaves f of every
// existing object unchanged, and the TOP havoc keeps it.  Not covered:
// package unsafe and reflection (listed under assumptions).
func (e *Engine) initOnlyFields() map[string][]string {
	if e.initOnly != nil {
		return e.initOnly
	}
	e.initOnly = map[string][]string{}
	repoPkg := map[*types.Package]bool{}
	for _, p := range e.pkgs {
		if p.Types != nil {
			repoPkg[p.Types] = true
		}
	}
	badField := map[*types.Named]map[int]bool{}
	whole := map[*types.Named]bool{}
	markField := func(t types.Type, i int) {
		if n, ok := types.Unalias(t).(*types.Named); ok {
			if badField[n] == nil {
				badField[n] = map[int]bool{}
			}
			badField[n][i] = true
		}
	}
	var markWhole func(t types.Type, depth int)
	markWhole = func(t types.Type, depth int) {
		if depth > 4 {
			return
		}
		t = types.Unalias(t)
		if n, ok := t.(*types.Named); ok {
			if _, ok := n.Underlying().(*types.Struct); ok {
				whole[n] = true
			}
		}
		switch u := t.Underlying().(type) {
		case *types.Struct:
			for i := 0; i < u.NumFields(); i++ {
				markWhole(u.Field(i).Type(), depth+1)
			}
		case *types.Array:
			markWhole(u.Elem(), depth+1)
		}
	}
	var freshBase func(v ssa.Value, depth int) bool
	freshBase = func(v ssa.Value, depth int) bool {
		if depth > 6 {
			return false
		}
		switch t := v.(type) {
		case *ssa.Alloc:
			return true
		case *ssa.FieldAddr:
			return freshBase(t.X, depth+1)
		case *ssa.IndexAddr:
			if _, ok := t.X.Type().Underlying().(*types.Pointer); ok {
				return freshBase(t.X, depth+1)
			}
		}
		return false
	}
	for _, fn := range e.fns {
		if fn.Pkg == nil || !repoPkg[fn.Pkg.Pkg] {
			// instantiations and wrappers of repository functions have no Pkg of their own
			if o := fn.Origin(); o == nil || o.Pkg == nil || !repoPkg[o.Pkg.Pkg] {
				if fn.Parent() == nil || fn.Parent().Pkg == nil || !repoPkg[fn.Parent().Pkg.Pkg] {
					continue
				}
			}
		}
		for _, b := range fn.Blocks {
			for _, ins := range b.Instrs {
				switch t := ins.(type) {
				case *ssa.Store:
					if !freshBase(t.Addr, 0) {
						markWhole(t.Val.Type(), 0)
					}
				case *ssa.FieldAddr:
					if freshBase(t.X, 0) {
						continue
					}
					pt := t.X.Type().Underlying().(*types.Pointer).Elem()
					for _, r := range *t.Referrers() {
						switch u := r.(type) {
						case *ssa.UnOp:
							continue // load
						case *ssa.DebugRef:
							continue
						case *ssa.Store:
							if u.Addr == ssa.Value(t) && u.Val != ssa.Value(t) {
								markField(pt, t.Field)
								continue
							}
						}
						markField(pt, t.Field) // the address escapes, is stored into, or is refined further
					}
				}
			}
		}
	}
	// exported API: a type that code outside the package can obtain a value of (result of an exported
	// function or method, exported field or variable, argument handed to a user callback) can be
	// copied by that code.  Polarity: out = the library hands the value to its user.
	exposed := map[*types.Named]bool{}
	type wk struct {
		t   types.Type
		out bool
	}
	seen := map[wk]bool{}
	var walk func(t types.Type, out bool, depth int)
	walk = func(t types.Type, out bool, depth int) {
		if t == nil || depth > 10 || seen[wk{t, out}] {
			return
		}
		seen[wk{t, out}] = true
		t = types.Unalias(t)
		switch u := t.(type) {
		case *types.Named:
			if out {
				exposed[u] = true
				if st, ok := u.Underlying().(*types.Struct); ok {
					for i := 0; i < st.NumFields(); i++ {
						if st.Field(i).Exported() {
							walk(st.Field(i).Type(), true, depth+1)
						}
					}
				}
				for i := 0; i < u.NumMethods(); i++ {
					if u.Method(i).Exported() {
						walk(u.Method(i).Type(), true, depth+1)
					}
				}
			}
			if _, ok := u.Underlying().(*types.Struct); !ok {
				walk(u.Underlying(), out, depth+1)
			}
			for i := 0; i < u.TypeArgs().Len(); i++ {
				walk(u.TypeArgs().At(i), out, depth+1)
			}
		case *types.Pointer:
			walk(u.Elem(), out, depth+1)
		case *types.Slice:
			walk(u.Elem(), out, depth+1)
		case *types.Array:
			walk(u.Elem(), out, depth+1)
		case *types.Map:
			walk(u.Key(), out, depth+1)
			walk(u.Elem(), out, depth+1)
		case *types.Chan:
			walk(u.Elem(), true, depth+1)
		case *types.Signature:
			// a function value in out position is called by the user: results come out, parameters go in
			for i := 0; i < u.Params().Len(); i++ {
				walk(u.Params().At(i).Type(), !out, depth+1)
			}
			for i := 0; i < u.Results().Len(); i++ {
				walk(u.Results().At(i).Type(), out, depth+1)
			}
		case *types.Interface:
			for i := 0; i < u.NumMethods(); i++ {
				walk(u.Method(i).Type(), out, depth+1)
			}
		case *types.Struct:
			for i := 0; i < u.NumFields(); i++ {
				if u.Field(i).Exported() {
					walk(u.Field(i).Type(), out, depth+1)
				}
			}
		}
	}
	for tp := range repoPkg {
		sc := tp.Scope()
		for _, name := range sc.Names() {
			o := sc.Lookup(name)
			if !o.Exported() {
				continue
			}
			walk(o.Type(), true, 0)
		}
	}
	for tp := range repoPkg {
		sc := tp.Scope()
		for _, name := range sc.Names() {
			tn, ok := sc.Lookup(name).(*types.TypeName)
			if !ok || tn.Exported() || tn.IsAlias() {
				continue
			}
			n, ok := tn.Type().(*types.Named)
			if !ok || n.TypeParams().Len() > 0 {
				continue
			}
			st, ok := n.Underlying().(*types.Struct)
			if !ok || whole[n] || exposed[n] {
				if os.Getenv("GOVC_INITONLY_DUMP") != "" && ok {
					fmt.Fprintf(os.Stderr, "init-only: %s excluded (whole-struct store=%v, in exported API=%v)\n", n, whole[n], exposed[n])
				}
				continue
			}
			si := e.so.structInfo(n)
			if si == nil {
				continue
			}
			var accs []string
			for i := 0; i < st.NumFields(); i++ {
				if st.Field(i).Exported() || st.Field(i).Embedded() || badField[n][i] || i >= len(si.Fields) {
					continue
				}
				accs = append(accs, si.Fields[i].Acc)
			}
			if len(accs) > 0 {
				sort.Strings(accs)
				e.initOnly["H_"+si.Name] = accs
			}
		}
	}
	if os.Getenv("GOVC_INITONLY_DUMP") != "" {
		var ks []string
		for k := range e.initOnly {
			ks = append(ks, k)
		}
		sort.Strings(ks)
		for _, k := range ks {
			fmt.Fprintf(os.Stderr, "init-only %s: %v\n", k, e.initOnly[k])
		}
	}
	return e.initOnly
}
