package main

// instr.go — symbolic semantics of individual go/ssa instructions.

import (
	"os"
	"fmt"
	"go/token"
	"go/types"
	"math/bits"
	"strconv"
	"strings"

	"golang.org/x/tools/go/ssa"
)

func (x *Exec) unsupported(fr *frame, ins ssa.Instruction, st *State, why string) *State {
	x.note("unmodelled: " + why + " in " + fr.fn.String())
	if os.Getenv("GOVC_UNSUP_DEBUG") != "" {
		fmt.Fprintf(os.Stderr, "unmodelled: %s in %s: %s\n", why, fr.fn.String(), ins.String())
	}
	x.curTaint = true
	ws := &WriteSet{Top: true}
	var n *State
	if x.errflow {
		n = x.havocHeapKeepGhosts(st, nil)
	} else {
		n = x.havocForWrites(st, ws, why)
	}
	if v, ok := ins.(ssa.Value); ok {
		fr.vals[v] = sval{t: x.freshConst("unk", x.so.sortOf(v.Type()))}
	}
	return n
}

func (x *Exec) execInstr(fr *frame, ins ssa.Instruction, st *State, reach string) *State {
	switch t := ins.(type) {
	case *ssa.DebugRef:
		return st
	case *ssa.Alloc:
		return x.execAlloc(fr, t, st, reach)
	case *ssa.FieldAddr:
		xv := x.val(fr, t.X, st)
		pt := t.X.Type().Underlying().(*types.Pointer).Elem()
		si := x.so.structInfo(pt)
		if xv.loc != nil && xv.loc.Kind == "field" {
			l := *xv.loc
			l.Path = append(append([]FieldStep(nil), l.Path...), FieldStep{si, t.Field})
			fr.vals[t] = sval{t: "0", loc: &l}
			return st
		}
		if xv.loc != nil && (xv.loc.Kind == "global" || xv.loc.Kind == "elem") {
			// a field of a struct held in a private cell (a local struct that never escapes) or in an array / slice element
			l := *xv.loc
			l.Path = append(append([]FieldStep(nil), l.Path...), FieldStep{si, t.Field})
			fr.vals[t] = sval{t: "0", loc: &l}
			return st
		}
		if xv.loc != nil {
			return x.unsupported(fr, ins, st, "field address of non-object location")
		}
		x.oblige("safety", "nil:"+si.Name+"."+si.Fields[t.Field].Name, reach, "(not (= "+xv.t+" 0))", "nil pointer dereference (field "+si.Fields[t.Field].Name+")", t.Pos())
		fr.vals[t] = sval{t: "(fieldptr " + xv.t + " " + strconv.Itoa(x.eng.typeID("struct:"+si.Name)) + " " + strconv.Itoa(t.Field) + ")", loc: &Loc{Kind: "field", Obj: xv.t, Comp: x.so.structComp(pt), Path: []FieldStep{{si, t.Field}}}}
		return st
	case *ssa.Field:
		xv := x.val(fr, t.X, st)
		si := x.so.structInfo(t.X.Type())
		fr.vals[t] = sval{t: "(" + si.Fields[t.Field].Acc + " " + xv.t + ")"}
		return st
	case *ssa.IndexAddr:
		return x.execIndexAddr(fr, t, st, reach)
	case *ssa.Index:
		xv := x.val(fr, t.X, st)
		iv := x.val(fr, t.Index, st)
		switch u := t.X.Type().Underlying().(type) {
		case *types.Array:
			x.oblige("safety", "index:array", reach, "(and (<= 0 "+iv.t+") (< "+iv.t+" "+strconv.FormatInt(u.Len(), 10)+"))", "array index in range", t.Pos())
			fr.vals[t] = sval{t: "(select " + xv.t + " " + iv.t + ")"}
		case *types.Basic: // string
			x.oblige("safety", "index:string", reach, "(and (<= 0 "+iv.t+") (< "+iv.t+" (s_len "+xv.t+")))", "string index in range", t.Pos())
			fr.vals[t] = sval{t: x.define("ch", "Int", "(select (select "+st.get("BM")+" (s_base "+xv.t+")) (idx (s_off "+xv.t+") "+iv.t+"))")}
			x.assume(reach, "(and (<= 0 "+fr.vals[t].t+") (<= "+fr.vals[t].t+" 255))")
		default:
			return x.unsupported(fr, ins, st, "index of "+t.X.Type().String())
		}
		return st
	case *ssa.UnOp:
		return x.execUnOp(fr, t, st, reach)
	case *ssa.BinOp:
		fr.vals[t] = x.execBinOp(fr, t, st, reach)
		return st
	case *ssa.Store:
		av := x.val(fr, t.Addr, st)
		vv := x.val(fr, t.Val, st)
		x.store(fr, av, t.Addr.Type(), vv, st, reach, t.Pos())
		return st
	case *ssa.Phi:
		return st
	case *ssa.Extract:
		tv := x.val(fr, t.Tuple, st)
		if t.Index < len(tv.tup) {
			fr.vals[t] = tv.tup[t.Index]
		} else {
			fr.vals[t] = sval{t: x.freshConst("ext", x.so.sortOf(t.Type()))}
			x.note("extract from unknown tuple")
		}
		return st
	case *ssa.ChangeType:
		fr.vals[t] = x.val(fr, t.X, st)
		return st
	case *ssa.ChangeInterface:
		fr.vals[t] = x.val(fr, t.X, st)
		return st
	case *ssa.MakeInterface:
		return x.execMakeInterface(fr, t, st, reach)
	case *ssa.TypeAssert:
		return x.execTypeAssert(fr, t, st, reach)
	case *ssa.Convert:
		return x.execConvert(fr, t, st, reach)
	case *ssa.Slice:
		return x.execSlice(fr, t, st, reach)
	case *ssa.MakeSlice:
		ln := x.val(fr, t.Len, st).t
		cp := x.val(fr, t.Cap, st).t
		x.oblige("safety", "makeslice", reach, "(and (<= 0 "+ln+") (<= "+ln+" "+cp+") (<= "+cp+" 4611686018427387904))", "make: 0 <= len <= cap", t.Pos())
		et := t.Type().Underlying().(*types.Slice).Elem()
		comp := x.so.elemComp(et)
		doneAlloc := x.allocFrame(st, comp)
		r := x.allocRef(st, "mk")
		cur := st.get(comp)
		st.set(comp, x.define(comp, x.so.comps[comp], "(store "+cur+" "+r+" ((as const (Array Int "+x.so.sortOf(et)+")) "+x.so.zeroOf(et)+"))"))
		doneAlloc()
		fr.vals[t] = sval{t: x.define("sl", "Slice", "(mkS "+r+" 0 "+ln+" "+cp+")")}
		return st
	case *ssa.MakeMap:
		mt := t.Type().Underlying().(*types.Map)
		mv, mp := x.so.mapComp(mt)
		r := x.allocRef(st, "map")
		st.set(mv, x.define(mv, x.so.comps[mv], "(store "+st.get(mv)+" "+r+" ((as const (Array "+x.so.sortOf(mt.Key())+" "+x.so.sortOf(mt.Elem())+")) "+x.so.zeroOf(mt.Elem())+"))"))
		st.set(mp, x.define(mp, x.so.comps[mp], "(store "+st.get(mp)+" "+r+" ((as const (Array "+x.so.sortOf(mt.Key())+" Bool)) false))"))
		fr.vals[t] = sval{t: r}
		return st
	case *ssa.Lookup:
		xv := x.val(fr, t.X, st)
		iv := x.val(fr, t.Index, st)
		if mt, ok := t.X.Type().Underlying().(*types.Map); ok {
			mv, mp := x.so.mapComp(mt)
			okT := x.define("mok", "Bool", "(and (not (= "+xv.t+" 0)) (select (select "+st.get(mp)+" "+xv.t+") "+x.mapKey(iv.t, mt.Key(), st)+"))")
			v := x.define("mval", x.so.sortOf(mt.Elem()), "(ite "+okT+" (select (select "+st.get(mv)+" "+xv.t+") "+x.mapKey(iv.t, mt.Key(), st)+") "+x.so.zeroOf(mt.Elem())+")")
			for _, f := range x.so.typeFacts(v, mt.Elem(), st.na) {
				x.assume(reach, f)
			}
			if t.CommaOk {
				fr.vals[t] = sval{tup: []sval{{t: v}, {t: okT}}}
			} else {
				fr.vals[t] = sval{t: v}
			}
			return st
		}
		// string index
		x.oblige("safety", "index:string", reach, "(and (<= 0 "+iv.t+") (< "+iv.t+" (s_len "+xv.t+")))", "string index in range", t.Pos())
		fr.vals[t] = sval{t: x.define("ch", "Int", "(select (select "+st.get("BM")+" (s_base "+xv.t+")) (idx (s_off "+xv.t+") "+iv.t+"))")}
		x.assume(reach, "(and (<= 0 "+fr.vals[t].t+") (<= "+fr.vals[t].t+" 255))")
		return st
	case *ssa.MapUpdate:
		mvv := x.val(fr, t.Map, st)
		kv := x.val(fr, t.Key, st)
		vv := x.val(fr, t.Value, st)
		mt := t.Map.Type().Underlying().(*types.Map)
		mv, mp := x.so.mapComp(mt)
		x.oblige("safety", "nil:mapupdate", reach, "(not (= "+mvv.t+" 0))", "assignment to entry in nil map", t.Pos())
		k := x.mapKey(kv.t, mt.Key(), st)
		st.set(mv, x.define(mv, x.so.comps[mv], "(store "+st.get(mv)+" "+mvv.t+" (store (select "+st.get(mv)+" "+mvv.t+") "+k+" "+vv.t+"))"))
		st.set(mp, x.define(mp, x.so.comps[mp], "(store "+st.get(mp)+" "+mvv.t+" (store (select "+st.get(mp)+" "+mvv.t+") "+k+" true))"))
		return st
	case *ssa.Range:
		fr.vals[t] = x.val(fr, t.X, st)
		if mt, ok := t.X.Type().Underlying().(*types.Map); ok && fr.top && !x.errflow {
			// visited set of this map iteration (a private ghost): nothing visited yet
			comp := "L_vis_" + sanitize(fr.fn.Name()) + "_" + t.Name()
			x.so.addComp(comp, "(Array "+x.so.sortOf(mt.Key())+" Bool)")
			st.set(comp, x.define(comp, x.so.comps[comp], "((as const (Array "+x.so.sortOf(mt.Key())+" Bool)) false)"))
			x.visComp = comp
		}
		return st
	case *ssa.Next:
		it := x.val(fr, t.Iter, st)
		okT := x.freshConst("nxok", "Bool")
		if t.IsString {
			fr.vals[t] = sval{tup: []sval{{t: okT}, {t: x.freshConst("nxi", "Int")}, {t: x.freshConst("nxr", "Int")}}}
			return st
		}
		rng := t.Iter.(*ssa.Range)
		mt := rng.X.Type().Underlying().(*types.Map)
		mv, mp := x.so.mapComp(mt)
		k := x.freshConst("nxk", x.so.sortOf(mt.Key()))
		v := x.freshConst("nxv", x.so.sortOf(mt.Elem()))
		for _, f := range append(x.so.typeFacts(k, mt.Key(), st.na), x.so.typeFacts(v, mt.Elem(), st.na)...) {
			x.assume(reach, f)
		}
		x.assume(reach, "(=> "+okT+" (and (not (= "+it.t+" 0)) (select (select "+st.get(mp)+" "+it.t+") "+x.mapKey(k, mt.Key(), st)+") (= "+v+" (select (select "+st.get(mv)+" "+it.t+") "+x.mapKey(k, mt.Key(), st)+"))))")
		if comp := "L_vis_" + sanitize(fr.fn.Name()) + "_" + rng.Name(); fr.top && !x.errflow && x.so.comps[comp] != "" {
			// a map iteration yields every present key exactly once: the key handed out was not visited
			// before, and when the iteration is over every present key has been visited
			vis := st.get(comp)
			kk := x.mapKey(k, mt.Key(), st)
			x.assume(reach, "(=> "+okT+" (not (select "+vis+" "+kk+")))")
			x.assume(reach, "(=> (not "+okT+") (forall ((w! "+x.so.sortOf(mt.Key())+")) (! (=> (select (select "+st.get(mp)+" "+it.t+") w!) (select "+vis+" w!)) :pattern ((select "+vis+" w!)))))")
			st.set(comp, x.define(comp, x.so.comps[comp], "(ite "+okT+" (store "+vis+" "+kk+" true) "+vis+")"))
		}
		fr.vals[t] = sval{tup: []sval{{t: okT}, {t: k}, {t: v}}}
		return st
	case *ssa.MakeClosure:
		fn := t.Fn.(*ssa.Function)
		var bs []sval
		for _, b := range t.Bindings {
			bs = append(bs, x.val(fr, b, st))
		}
		r := x.freshConst("clo", "Int")
		x.assume("", "(> "+r+" 0)")
		fr.vals[t] = sval{t: r, clo: &closure{fn: fn, bindings: bs}}
		return st
	case *ssa.Call:
		res, nst := x.execCall(fr, t, t.Common(), st, reach, t.Pos())
		fr.vals[t] = res
		return nst
	case *ssa.Defer:
		d := deferred{cond: reach, call: t.Common(), pos: t.Pos()}
		for _, a := range t.Call.Args {
			d.args = append(d.args, x.val(fr, a, st))
		}
		d.fnv = x.val(fr, t.Call.Value, st)
		fr.defers = append(fr.defers, d)
		return st
	case *ssa.RunDefers:
		for i := len(fr.defers) - 1; i >= 0; i-- {
			d := fr.defers[i]
			cond := x.define("Rdefer", "Bool", and(reach, d.cond))
			_, after := x.callWithArgs(fr, d.call, d.fnv, d.args, st.clone(), cond, d.pos, nil)
			st = x.mergeStates([]edge{{cond: d.cond, st: after}, {cond: "true", st: st}})
		}
		return st
	case *ssa.Go:
		return x.unsupported(fr, ins, st, "go statement")
	case *ssa.Send:
		return x.unsupported(fr, ins, st, "channel send")
	case *ssa.Select:
		return x.unsupported(fr, ins, st, "select")
	case *ssa.MakeChan:
		fr.vals[t] = sval{t: x.allocRef(st, "chan")}
		return st
	case *ssa.SliceToArrayPointer:
		return x.unsupported(fr, ins, st, "slice to array pointer")
	}
	return x.unsupported(fr, ins, st, fmt.Sprintf("instruction %T", ins))
}

// mapKey: string-typed map keys are identified by content (ord,len);
// other keys by value.
func (x *Exec) mapKey(t string, kt types.Type, st *State) string {
	return t
}

// localCellName: component of a non-escaping scalar local (address taken
// only locally, e.g. named results in functions with defer).
func localCellName(prefix string, t *ssa.Alloc) string {
	return "L_" + sanitize(prefix) + sanitize(t.Parent().Name()) + "_" + t.Name()
}

// writtenOnce: a heap cell (a local captured by closures) whose only store is
// its initialisation in the declaring function, and which closures only read:
// nobody else can change it, so it is kept as a private cell of the activation.
func writtenOnce(t *ssa.Alloc) bool {
	refs := t.Referrers()
	if refs == nil {
		return false
	}
	stores := 0
	var readOnlyUse func(v ssa.Value, depth int) bool
	readOnlyUse = func(v ssa.Value, depth int) bool {
		rs := v.Referrers()
		if rs == nil || depth > 3 {
			return false
		}
		for _, r := range *rs {
			switch u := r.(type) {
			case *ssa.UnOp:
				if u.Op != token.MUL {
					return false
				}
			case *ssa.DebugRef:
			case *ssa.MakeClosure:
				fn, ok := u.Fn.(*ssa.Function)
				if !ok {
					return false
				}
				for i, b := range u.Bindings {
					if b == v {
						if i >= len(fn.FreeVars) || !readOnlyUse(fn.FreeVars[i], depth+1) {
							return false
						}
					}
				}
			case *ssa.Store:
				if u.Addr != v || depth > 0 {
					return false
				}
				stores++
			default:
				return false
			}
		}
		return true
	}
	return readOnlyUse(t, 0) && stores <= 1
}

func isScalarCell(et types.Type) bool {
	switch et.Underlying().(type) {
	case *types.Struct, *types.Array:
		return false
	}
	return true
}

func (x *Exec) execAlloc(fr *frame, t *ssa.Alloc, st *State, reach string) *State {
	et := t.Type().(*types.Pointer).Elem()
	if (!t.Heap || writtenOnce(t)) && isScalarCell(et) {
		comp := localCellName(fr.prefix, t)
		x.so.addComp(comp, x.so.sortOf(et))
		st.set(comp, x.define(comp, x.so.comps[comp], x.so.zeroOf(et)))
		fr.vals[t] = sval{t: "0", loc: &Loc{Kind: "global", Comp: comp, ElemT: et}}
		return st
	}
	var before []string
	var sfp *predApp
	if _, isS := et.Underlying().(*types.Struct); isS {
		if sf, ok := x.eng.storeFacts[x.so.structComp(et)]; ok {
			x.flushStores(st, reach)
			before = x.predArgs(sf.Args, st)
			sfp = &sf
		}
	}
	r := x.allocRef(st, "new_"+sanitize(t.Comment))
	switch u := et.Underlying().(type) {
	case *types.Struct:
		comp := x.so.structComp(et)
		st.set(comp, x.define(comp, x.so.comps[comp], "(store "+st.get(comp)+" "+r+" "+x.so.zeroOf(et)+")"))
		if sfp != nil {
			x.pending = &pendingStore{comp: comp, obj: r, before: before, sf: *sfp}
		}
		if g, ok := x.eng.onAlloc[comp]; ok {
			x.assume("", "(not (select "+st.get("G_"+g)+" "+r+"))")
		}
		for _, g := range x.eng.onAllocEmpty[comp] {
			srt := x.eng.ghosts[g]
			parts := splitSexp(srt)
			if len(parts) == 3 {
				inner := splitSexp(parts[2])
				if len(inner) == 3 && inner[2] == "Bool" {
					x.assume("", "(= (select "+st.get("G_"+g)+" "+r+") ((as const "+parts[2]+") false))")
				}
			}
		}
		for k, g := range x.eng.onStoreFlag {
			if strings.HasPrefix(k, comp+".") {
				x.assume("", "(not (select "+st.get("G_"+g)+" "+r+"))")
				break
			}
		}
	case *types.Array:
		comp := x.so.elemComp(u.Elem())
		st.set(comp, x.define(comp, x.so.comps[comp], "(store "+st.get(comp)+" "+r+" "+x.so.zeroOf(et)+")"))
	default:
		comp := x.so.cellComp(et)
		st.set(comp, x.define(comp, x.so.comps[comp], "(store "+st.get(comp)+" "+r+" "+x.so.zeroOf(et)+")"))
	}
	fr.vals[t] = sval{t: r}
	x.markNamed(r, t.Type())
	return st
}

func (x *Exec) execIndexAddr(fr *frame, t *ssa.IndexAddr, st *State, reach string) *State {
	xv := x.val(fr, t.X, st)
	iv := x.val(fr, t.Index, st)
	switch u := t.X.Type().Underlying().(type) {
	case *types.Slice:
		x.oblige("safety", "index:slice", reach, "(and (<= 0 "+iv.t+") (< "+iv.t+" (s_len "+xv.t+")))", "slice index in range", t.Pos())
		fr.vals[t] = sval{t: "0", loc: &Loc{Kind: "elem", Comp: x.so.elemComp(u.Elem()), Base: "(s_base " + xv.t + ")", Idx: "(idx (s_off " + xv.t + ") " + iv.t + ")", ElemT: u.Elem()}}
		return st
	case *types.Pointer:
		at := u.Elem().Underlying().(*types.Array)
		if xv.loc != nil {
			return x.unsupported(fr, t, st, "index of array inside struct")
		}
		x.oblige("safety", "nil:arrayptr", reach, "(not (= "+xv.t+" 0))", "nil array pointer", t.Pos())
		x.oblige("safety", "index:array", reach, "(and (<= 0 "+iv.t+") (< "+iv.t+" "+strconv.FormatInt(at.Len(), 10)+"))", "array index in range", t.Pos())
		fr.vals[t] = sval{t: "0", loc: &Loc{Kind: "elem", Comp: x.so.elemComp(at.Elem()), Base: xv.t, Idx: iv.t, ElemT: at.Elem()}}
		return st
	}
	return x.unsupported(fr, t, st, "IndexAddr of "+t.X.Type().String())
}

func (x *Exec) execUnOp(fr *frame, t *ssa.UnOp, st *State, reach string) *State {
	xv := x.val(fr, t.X, st)
	switch t.Op {
	case token.MUL:
		fr.vals[t] = x.load(fr, xv, t.X.Type(), st, reach, t.Pos())
	case token.NOT:
		fr.vals[t] = sval{t: not(xv.t)}
	case token.SUB:
		if x.so.sortOf(t.Type()) == "Real" {
			fr.vals[t] = sval{t: "(- " + xv.t + ")"}
		} else {
			fr.vals[t] = sval{t: x.define("neg", "Int", wrapTo("(- "+xv.t+")", t.Type()))}
		}
	case token.XOR:
		_, signed := intBits(t.Type())
		if signed {
			fr.vals[t] = sval{t: x.define("bnot", "Int", "(- (- "+xv.t+") 1)")}
		} else {
			_, hi, _ := intRange(t.Type())
			fr.vals[t] = sval{t: x.define("bnot", "Int", "(- "+hi+" "+xv.t+")")}
		}
	case token.ARROW:
		if x.errflow {
			// error-flow layer: an error value received from a channel is the outcome of work another
			// goroutine did for this operation (the in-flight batch write of the importer, the export
			// goroutine): a non-nil one is a storage failure that this operation now knows about
			isErr := func(ty types.Type) bool {
				return types.Identical(ty, types.Universe.Lookup("error").Type())
			}
			// (only where the receiving function can report it: a function without an error result that
			// drains a channel — Importer.Close abandoning an import — is not charged with the failure)
			canReport := false
			if rs := x.fn.Signature.Results(); rs != nil {
				for i := 0; i < rs.Len(); i++ {
					if isErr(rs.At(i).Type()) {
						canReport = true
					}
				}
			}
			if !canReport {
				isErr = func(types.Type) bool { return false }
			}
			n := x.havocHeapKeepGhosts(st, map[string]bool{"fault": true})
			oldF, newF := st.get("G_fault"), n.get("G_fault")
			if tup, ok := t.Type().(*types.Tuple); ok && t.CommaOk && isErr(tup.At(0).Type()) {
				v := x.freshConst("recv", x.so.sortOf(tup.At(0).Type()))
				okv := x.freshConst("recvok", "Bool")
				x.assume(reach, "(= "+newF+" (or "+oldF+" (not (= "+v+" 0))))")
				fr.vals[t] = sval{tup: []sval{{t: v}, {t: okv}}}
				return n
			}
			if isErr(t.Type()) {
				v := x.freshConst("recv", x.so.sortOf(t.Type()))
				x.assume(reach, "(= "+newF+" (or "+oldF+" (not (= "+v+" 0))))")
				fr.vals[t] = sval{t: v}
				return n
			}
			x.assume(reach, "(= "+newF+" "+oldF+")")
			if tup, ok := t.Type().(*types.Tuple); ok {
				var vs []sval
				for i := 0; i < tup.Len(); i++ {
					vs = append(vs, sval{t: x.freshConst("recv", x.so.sortOf(tup.At(i).Type()))})
				}
				fr.vals[t] = sval{tup: vs}
			} else {
				fr.vals[t] = sval{t: x.freshConst("recv", x.so.sortOf(t.Type()))}
			}
			x.note("channel receive in " + fr.fn.String() + ": value unconstrained")
			return n
		}
		return x.unsupported(fr, t, st, "channel receive")
	default:
		return x.unsupported(fr, t, st, "unary "+t.Op.String())
	}
	return st
}

// ---- bit operations with a constant operand, on mathematical integers

func bitRuns(c uint64) [][2]int {
	var out [][2]int
	i := 0
	for i < 64 {
		if c&(1<<uint(i)) != 0 {
			j := i
			for j < 64 && c&(1<<uint(j)) != 0 {
				j++
			}
			out = append(out, [2]int{i, j})
			i = j
		} else {
			i++
		}
	}
	return out
}

func extractRun(xu string, lo, hi int) string {
	// bits [lo,hi) of unsigned xu, still positioned at lo
	t := xu
	if lo > 0 {
		t = "(div " + t + " " + pow2(lo) + ")"
	}
	t = "(mod " + t + " " + pow2(hi-lo) + ")"
	if lo > 0 {
		t = "(* " + t + " " + pow2(lo) + ")"
	}
	return t
}

func constUint(v ssa.Value) (uint64, bool) {
	c, ok := v.(*ssa.Const)
	if !ok || c.Value == nil {
		return 0, false
	}
	if _, isInt := c.Type().Underlying().(*types.Basic); !isInt {
		return 0, false
	}
	if c.Type().Underlying().(*types.Basic).Info()&types.IsInteger == 0 {
		return 0, false
	}
	if i := c.Int64(); i >= 0 {
		return uint64(i), true
	} else {
		b, _ := intBits(c.Type())
		if b == 64 {
			return uint64(i), true
		}
		return uint64(i) & ((1 << uint(b)) - 1), true
	}
}

func (x *Exec) execBinOp(fr *frame, t *ssa.BinOp, st *State, reach string) sval {
	a := x.val(fr, t.X, st)
	b := x.val(fr, t.Y, st)
	xt := t.X.Type()
	srt := x.so.sortOf(xt)
	isStr := false
	if bt, ok := xt.Underlying().(*types.Basic); ok && bt.Info()&types.IsString != 0 {
		isStr = true
	}
	ordOf := func(s string) string {
		return "(ordRow (select " + st.get("BM") + " (s_base " + s + ")) (s_off " + s + ") (s_len " + s + "))"
	}
	switch t.Op {
	case token.EQL, token.NEQ:
		var e string
		if isStr {
			e = "(streq " + st.get("BM") + " " + a.t + " " + b.t + ")"
		} else if srt == "Slice" {
			// slices compare only against nil
			if isNilConst(t.Y) {
				e = "(= (s_base " + a.t + ") 0)"
			} else if isNilConst(t.X) {
				e = "(= (s_base " + b.t + ") 0)"
			} else {
				e = "(= " + a.t + " " + b.t + ")"
			}
		} else {
			e = "(= " + a.t + " " + b.t + ")"
		}
		if t.Op == token.NEQ {
			e = not(e)
		}
		return sval{t: e}
	case token.LSS, token.LEQ, token.GTR, token.GEQ:
		op := map[token.Token]string{token.LSS: "<", token.LEQ: "<=", token.GTR: ">", token.GEQ: ">="}[t.Op]
		if isStr {
			return sval{t: "(" + op + " " + ordOf(a.t) + " " + ordOf(b.t) + ")"}
		}
		return sval{t: "(" + op + " " + a.t + " " + b.t + ")"}
	}
	if srt == "Bool" {
		switch t.Op {
		case token.AND, token.LAND:
			return sval{t: and(a.t, b.t)}
		case token.OR, token.LOR:
			return sval{t: or(a.t, b.t)}
		}
	}
	if srt == "Real" {
		op := map[token.Token]string{token.ADD: "+", token.SUB: "-", token.MUL: "*", token.QUO: "/"}[t.Op]
		if op != "" {
			return sval{t: "(" + op + " " + a.t + " " + b.t + ")"}
		}
	}
	if isStr && t.Op == token.ADD {
		r := x.freshConst("strcat", "Slice")
		x.assume(reach, "(and (wfStr "+r+") (= (s_len "+r+") (+ (s_len "+a.t+") (s_len "+b.t+"))))")
		return sval{t: r}
	}
	rt := t.Type()
	bitsN, signed := intBits(rt)
	toU := func(s string) string {
		if !signed {
			return s
		}
		return "(mod " + s + " " + pow2(bitsN) + ")"
	}
	fromU := func(s string) string {
		if !signed {
			return s
		}
		return wrapTo(s, rt)
	}
	def := func(term string) sval { return sval{t: x.define("bin", "Int", term)} }
	switch t.Op {
	case token.ADD:
		return def(wrapAddSub("(+ "+a.t+" "+b.t+")", rt))
	case token.SUB:
		return def(wrapAddSub("(- "+a.t+" "+b.t+")", rt))
	case token.MUL:
		return def(wrapTo("(* "+a.t+" "+b.t+")", rt))
	case token.QUO:
		x.oblige("safety", "divzero", reach, "(not (= "+b.t+" 0))", "division by zero", t.Pos())
		// Go truncates toward zero
		q := "(ite (>= " + a.t + " 0) (div " + a.t + " " + b.t + ") (- (div (- " + a.t + ") " + b.t + ")))"
		if !signed {
			q = "(div " + a.t + " " + b.t + ")"
		}
		return def(wrapTo(q, rt))
	case token.REM:
		x.oblige("safety", "divzero", reach, "(not (= "+b.t+" 0))", "division by zero", t.Pos())
		q := "(ite (>= " + a.t + " 0) (mod " + a.t + " " + b.t + ") (- (mod (- " + a.t + ") " + b.t + ")))"
		if !signed {
			q = "(mod " + a.t + " " + b.t + ")"
		}
		return def(q)
	case token.SHL:
		if c, ok := constUint(t.Y); ok && c < 64 {
			return def(wrapTo("(* "+a.t+" "+pow2(int(c))+")", rt))
		}
		x.note("shift by non-constant amount")
		return def(wrapTo("(* "+a.t+" (pow2 "+b.t+"))", rt))
	case token.SHR:
		if c, ok := constUint(t.Y); ok && c < 64 {
			return def("(div " + a.t + " " + pow2(int(c)) + ")")
		}
		x.note("shift by non-constant amount")
		return def("(div " + a.t + " (pow2 " + b.t + "))")
	case token.AND, token.OR, token.XOR, token.AND_NOT:
		var c uint64
		var other string
		haveConst := false
		if cv, ok := constUint(t.Y); ok {
			c, other, haveConst = cv, a.t, true
		} else if cv, ok := constUint(t.X); ok && t.Op != token.AND_NOT {
			c, other, haveConst = cv, b.t, true
		}
		if haveConst {
			if bitsN < 64 {
				c &= (1 << uint(bitsN)) - 1
			}
			if t.Op == token.AND_NOT {
				c = ^c
				if bitsN < 64 {
					c &= (1 << uint(bitsN)) - 1
				}
			}
			xu := toU(other)
			xuS := x.define("xu", "Int", xu)
			runs := bitRuns(c)
			switch t.Op {
			case token.AND, token.AND_NOT:
				if bits.OnesCount64(c) == bitsN {
					return sval{t: other}
				}
				var parts []string
				for _, r := range runs {
					parts = append(parts, extractRun(xuS, r[0], r[1]))
				}
				term := "0"
				if len(parts) == 1 {
					term = parts[0]
				} else if len(parts) > 1 {
					term = "(+ " + strings.Join(parts, " ") + ")"
				}
				return def(fromU(term))
			case token.OR:
				parts := []string{xuS}
				for _, r := range runs {
					full := "(* " + pow2(r[0]) + " (- " + pow2(r[1]-r[0]) + " 1))"
					parts = append(parts, "(- "+full+" "+extractRun(xuS, r[0], r[1])+")")
				}
				return def(fromU("(+ " + strings.Join(parts, " ") + ")"))
			case token.XOR:
				parts := []string{xuS}
				for _, r := range runs {
					full := "(* " + pow2(r[0]) + " (- " + pow2(r[1]-r[0]) + " 1))"
					parts = append(parts, "(- "+full+" (* 2 "+extractRun(xuS, r[0], r[1])+"))")
				}
				return def(fromU("(+ " + strings.Join(parts, " ") + ")"))
			}
		}
		fnm := map[token.Token]string{token.AND: "bitand", token.OR: "bitor", token.XOR: "bitxor", token.AND_NOT: "bitandnot"}[t.Op]
		x.note("bit operation on two non-constant operands (uninterpreted)")
		r := x.define("bit", "Int", "("+fnm+" "+a.t+" "+b.t+")")
		for _, f := range x.so.typeFacts(r, rt, "") {
			x.assume(reach, f)
		}
		return sval{t: r}
	}
	x.note("unmodelled binary op " + t.Op.String())
	x.curTaint = true
	return sval{t: x.freshConst("unkbin", x.so.sortOf(t.Type()))}
}

func wrapAddSub(term string, t types.Type) string {
	lo, hi, ok := intRange(t)
	if !ok {
		return term
	}
	bitsN, _ := intBits(t)
	m := pow2(bitsN)
	return "(let ((ws " + term + ")) (ite (> ws " + hi + ") (- ws " + m + ") (ite (< ws " + lo + ") (+ ws " + m + ") ws)))"
}

func isNilConst(v ssa.Value) bool {
	c, ok := v.(*ssa.Const)
	return ok && c.Value == nil
}

func (x *Exec) execMakeInterface(fr *frame, t *ssa.MakeInterface, st *State, reach string) *State {
	xv := x.val(fr, t.X, st)
	xt := t.X.Type()
	tid := strconv.Itoa(x.eng.typeID(xt.String()))
	switch xt.Underlying().(type) {
	case *types.Pointer:
		// interface value identified with the pointer; a typed nil inside an
		// interface is not modelled (noted as an assumption)
		x.assume(reach, "(=> (not (= "+xv.t+" 0)) (= (dyntype "+xv.t+") "+tid+"))")
		fr.vals[t] = sval{t: xv.t, clo: xv.clo}
		return st
	}
	r := x.freshConst("box", "Int")
	x.assume("", "(> "+r+" 0)")
	x.assume("", "(= (dyntype "+r+") "+tid+")")
	srt := x.so.sortOf(xt)
	switch srt {
	case "Int":
		x.assume("", "(= (unboxInt "+r+") "+xv.t+")")
	case "Bool":
		x.assume("", "(= (unboxBool "+r+") "+xv.t+")")
	case "Slice":
		x.assume("", "(= (unboxSlice "+r+") "+xv.t+")")
	}
	fr.vals[t] = sval{t: r, clo: xv.clo}
	return st
}

func (x *Exec) execTypeAssert(fr *frame, t *ssa.TypeAssert, st *State, reach string) *State {
	xv := x.val(fr, t.X, st)
	at := t.AssertedType
	tid := strconv.Itoa(x.eng.typeID(at.String()))
	var okT, val string
	if _, isIface := at.Underlying().(*types.Interface); isIface {
		okT = "(and (not (= " + xv.t + " 0)) (implements (dyntype " + xv.t + ") " + tid + "))"
		val = xv.t
	} else {
		okT = "(and (not (= " + xv.t + " 0)) (= (dyntype " + xv.t + ") " + tid + "))"
		switch at.Underlying().(type) {
		case *types.Pointer:
			val = xv.t
		default:
			switch x.so.sortOf(at) {
			case "Int":
				val = "(unboxInt " + xv.t + ")"
			case "Bool":
				val = "(unboxBool " + xv.t + ")"
			case "Slice":
				val = "(unboxSlice " + xv.t + ")"
			default:
				val = x.freshConst("unbox", x.so.sortOf(at))
			}
		}
	}
	okS := x.define("taok", "Bool", okT)
	if t.CommaOk {
		v := x.define("taval", x.so.sortOf(at), "(ite "+okS+" "+val+" "+x.so.zeroOf(at)+")")
		for _, f := range x.so.typeFacts(v, at, st.na) {
			x.assume(reach, f)
		}
		fr.vals[t] = sval{tup: []sval{{t: v}, {t: okS}}}
		return st
	}
	x.oblige("safety", "typeassert:"+typeKey(at), reach, okS, "type assertion succeeds", t.Pos())
	v := x.define("taval", x.so.sortOf(at), val)
	for _, f := range x.so.typeFacts(v, at, st.na) {
		x.assume(reach, f)
	}
	fr.vals[t] = sval{t: v}
	return st
}

func (x *Exec) execConvert(fr *frame, t *ssa.Convert, st *State, reach string) *State {
	xv := x.val(fr, t.X, st)
	from, to := t.X.Type(), t.Type()
	fs, ts := x.so.sortOf(from), x.so.sortOf(to)
	_, fromInt := intRangeOK(from)
	_, toInt := intRangeOK(to)
	switch {
	case fromInt && toInt:
		fb, fsg := intBits(from)
		tb, tsg := intBits(to)
		if (fsg == tsg && fb <= tb) || (!fsg && tsg && fb < tb) {
			fr.vals[t] = xv
		} else {
			fr.vals[t] = sval{t: x.define("cv", "Int", wrapTo(xv.t, to))}
		}
		return st
	case fs == "Slice" && ts == "Slice":
		// string <-> []byte: a fresh copy with the same content
		_, toStr := to.Underlying().(*types.Basic)
		doneAlloc := x.allocFrame(st, "BM")
		r := x.allocRef(st, "conv")
		bm := st.get("BM")
		st.set("BM", x.define("BM", x.so.comps["BM"], "(store "+bm+" "+r+" (rowShift (select "+bm+" (s_base "+xv.t+")) (s_off "+xv.t+")))"))
		doneAlloc()
		var res string
		if toStr {
			res = x.define("str", "Slice", "(ite (= (s_len "+xv.t+") 0) emptyStr (mkS "+r+" 0 (s_len "+xv.t+") (s_len "+xv.t+")))")
		} else {
			res = x.define("bz", "Slice", "(mkS "+r+" 0 (s_len "+xv.t+") (s_len "+xv.t+"))")
		}
		x.assume(reach, "(= (ordRow (select "+st.get("BM")+" "+r+") 0 (s_len "+xv.t+")) (ordRow (select "+bm+" (s_base "+xv.t+")) (s_off "+xv.t+") (s_len "+xv.t+")))")
		fr.vals[t] = sval{t: res}
		return st
	case fromInt && ts == "Real":
		fr.vals[t] = sval{t: "(to_real " + xv.t + ")"}
		return st
	case fs == "Real" && toInt:
		fr.vals[t] = sval{t: x.define("cv", "Int", wrapTo("(to_int "+xv.t+")", to))}
		return st
	case fs == ts && fs != "Slice":
		fr.vals[t] = xv
		return st
	}
	return x.unsupported(fr, t, st, "conversion "+from.String()+" -> "+to.String())
}

func intRangeOK(t types.Type) (string, bool) {
	lo, _, ok := intRange(t)
	return lo, ok
}

func (x *Exec) execSlice(fr *frame, t *ssa.Slice, st *State, reach string) *State {
	xv := x.val(fr, t.X, st)
	lo := "0"
	if t.Low != nil {
		lo = x.val(fr, t.Low, st).t
	}
	switch u := t.X.Type().Underlying().(type) {
	case *types.Slice:
		hi := "(s_len " + xv.t + ")"
		if t.High != nil {
			hi = x.val(fr, t.High, st).t
		}
		mx := "(s_cap " + xv.t + ")"
		if t.Max != nil {
			mx = x.val(fr, t.Max, st).t
			x.oblige("safety", "slice:max", reach, "(and (<= "+hi+" "+mx+") (<= "+mx+" (s_cap "+xv.t+")))", "slice max in range", t.Pos())
		}
		x.oblige("safety", "slice:bounds", reach, "(and (<= 0 "+lo+") (<= "+lo+" "+hi+") (<= "+hi+" (s_cap "+xv.t+")))", "slice bounds in range", t.Pos())
		fr.vals[t] = sval{t: x.define("sl", "Slice", "(mkS (s_base "+xv.t+") (+ (s_off "+xv.t+") "+lo+") (- "+hi+" "+lo+") (- "+mx+" "+lo+"))")}
		return st
	case *types.Basic: // string
		hi := "(s_len " + xv.t + ")"
		if t.High != nil {
			hi = x.val(fr, t.High, st).t
		}
		x.oblige("safety", "slice:strbounds", reach, "(and (<= 0 "+lo+") (<= "+lo+" "+hi+") (<= "+hi+" (s_len "+xv.t+")))", "string slice bounds in range", t.Pos())
		fr.vals[t] = sval{t: x.define("sl", "Slice", "(ite (= "+hi+" "+lo+") emptyStr (mkS (s_base "+xv.t+") (+ (s_off "+xv.t+") "+lo+") (- "+hi+" "+lo+") (- "+hi+" "+lo+")))")}
		return st
	case *types.Pointer:
		at := u.Elem().Underlying().(*types.Array)
		n := strconv.FormatInt(at.Len(), 10)
		hi := n
		if t.High != nil {
			hi = x.val(fr, t.High, st).t
		}
		if xv.loc != nil {
			return x.unsupported(fr, t, st, "slice of array inside struct")
		}
		x.oblige("safety", "nil:arrayptr", reach, "(not (= "+xv.t+" 0))", "nil array pointer", t.Pos())
		x.oblige("safety", "slice:bounds", reach, "(and (<= 0 "+lo+") (<= "+lo+" "+hi+") (<= "+hi+" "+n+"))", "slice bounds in range", t.Pos())
		fr.vals[t] = sval{t: x.define("sl", "Slice", "(mkS "+xv.t+" "+lo+" (- "+hi+" "+lo+") (- "+n+" "+lo+"))")}
		return st
	}
	return x.unsupported(fr, t, st, "slice of "+t.X.Type().String())
}
