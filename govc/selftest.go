package main

// selftest.go — must-fail corpus: small semantic edits of the repository
// applied through a load overlay (nothing on disk changes); each must make
// its named obligation(s) fail.  Guards against vacuous proofs.

import (
	"flag"
	"fmt"
	"os"
	"path/filepath"
	"strings"
	"sync"
)

type mutant struct {
	Name   string   `json:"name"`
	File   string   `json:"file"`
	Old    string   `json:"old"`
	New    string   `json:"new"`
	Expect []string `json:"expect"` // substrings of obligation names that must fail
	Only   string   `json:"only"`   // function substring to restrict generation
	Props  []string `json:"props"`
	Module string   `json:"module"` // sub-module of the repository ("" = root, "v2")
}

func cmdSelftest(args []string) int {
	fs := flag.NewFlagSet("selftest", flag.ExitOnError)
	repo := fs.String("repo", "/repo", "repository")
	verif := fs.String("verif", "/verif", "verif dir")
	filter := fs.String("only", "", "mutant name substring")
	propsF := fs.String("props", "", "only mutants of these properties")
	par := fs.Int("j", 4, "parallel mutants")
	verbose := fs.Bool("v", false, "verbose")
	module := fs.String("module", "", "run the mutants of this sub-module (e.g. v2) instead of the root module's")
	fs.Parse(args)
	if *module != "" {
		specSubdir = "spec_" + *module
	}
	var corpus []mutant
	ents, _ := filepath.Glob(filepath.Join(*verif, "selftest", "*.json"))
	for _, f := range ents {
		var c []mutant
		b, err := os.ReadFile(f)
		if err != nil {
			fmt.Println(err)
			return 3
		}
		if err := jsonUnmarshal(b, &c); err != nil {
			fmt.Println(f, err)
			return 3
		}
		corpus = append(corpus, c...)
	}
	var mu sync.Mutex
	bad := 0
	ran := 0
	var wg sync.WaitGroup
	sem := make(chan struct{}, *par)
	for _, m := range corpus {
		if *filter != "" && !strings.Contains(m.Name, *filter) {
			continue
		}
		if m.Module != *module {
			continue
		}
		if *propsF != "" && !intersects(m.Props, strings.Split(*propsF, ",")) {
			continue
		}
		wg.Add(1)
		sem <- struct{}{}
		go func(m mutant) {
			defer wg.Done()
			defer func() { <-sem }()
			ok, msg := runMutant(*repo, *verif, m, *verbose)
			mu.Lock()
			ran++
			if !ok {
				bad++
				fmt.Printf("SELFTEST-FAIL %s: %s\n", m.Name, msg)
			} else {
				fmt.Printf("selftest ok   %s: %s\n", m.Name, msg)
			}
			mu.Unlock()
		}(m)
	}
	wg.Wait()
	fmt.Printf("selftest: %d mutants, %d not detected\n", ran, bad)
	if bad > 0 {
		return 3
	}
	return 0
}

func runMutant(repo, verif string, m mutant, verbose bool) (bool, string) {
	patterns := defaultPatterns
	if m.Module != "" {
		repo = filepath.Join(repo, m.Module)
		patterns = []string{".", "./internal"}
	}
	path := filepath.Join(repo, m.File)
	b, err := os.ReadFile(path)
	if err != nil {
		return false, err.Error()
	}
	src := string(b)
	if strings.Count(src, m.Old) != 1 {
		return false, fmt.Sprintf("pattern occurs %d times in %s", strings.Count(src, m.Old), m.File)
	}
	src = strings.Replace(src, m.Old, m.New, 1)
	e, err := loadEngine(repo, verif, patterns, map[string][]byte{path: []byte(src)})
	if err != nil {
		return false, "load: " + err.Error()
	}
	frs := selectWork(e, m.Props, m.Only)
	cfg := solveConfig{dir: filepath.Join(os.TempDir(), fmt.Sprintf("govc-st-%d-%s", os.Getpid(), sanitize(m.Name))), timeoutS: 10, workers: 4}
	defer os.RemoveAll(cfg.dir)
	var lemmas []*Lemma
	results := solveAll(e.prelude(), e.opaqueDefs, frs, lemmas, cfg)
	base := readBaseline(filepath.Join(verif, "baseline_obligations.txt"))
	var failed []string
	for _, r := range results {
		if r.Obl.Vacuity {
			continue
		}
		if r.Status != "unsat" {
			if _, inBase := base[r.Obl.Name]; inBase {
				failed = append(failed, shortKey(r.Obl.Name)+"["+r.Status+"]")
			} else if verbose {
				failed = append(failed, "(unclaimed)"+shortKey(r.Obl.Name)+"["+r.Status+"]")
			}
		}
	}
	for _, ex := range m.Expect {
		hit := false
		for _, f := range failed {
			if strings.Contains(f, ex) && !strings.HasPrefix(f, "(unclaimed)") {
				hit = true
			}
		}
		if !hit {
			return false, fmt.Sprintf("expected a failing baseline obligation matching %q; failing: %v", ex, failed)
		}
	}
	if len(failed) == 0 {
		return false, "no baseline obligation failed"
	}
	return true, strings.Join(failed, " ")
}
