package main

// solve.go — discharge of obligations by a portfolio of SMT solvers.

import (
	"bytes"
	"context"
	"fmt"
	"os"
	"os/exec"
	"path/filepath"
	"strings"
	"sync"
	"time"
)

type SolveResult struct {
	Obl     *Obligation
	Status  string // unsat | sat | unknown | timeout | error
	Solver  string
	TimeS   float64
	Output  string
	File    string
	Model   string
	Confirm string // second solver's verdict (thorough tier)
	MaxS    float64 // slowest single query of the obligation
}

type solverSpec struct {
	name string
	args func(file string, timeoutS int) []string
}

var solvers = []solverSpec{
	{"z3-5.1.0", func(f string, t int) []string {
		return []string{"z3-new", fmt.Sprintf("-T:%d", t), "smt.mbqi=false", "auto_config=false", f}
	}},
	{"z3-5.1.0-cs3", func(f string, t int) []string {
		return []string{"z3-new", fmt.Sprintf("-T:%d", t), "smt.mbqi=false", "auto_config=false", "smt.case_split=3", f}
	}},
	{"z3-5.1.0-arith2", func(f string, t int) []string {
		return []string{"z3-new", fmt.Sprintf("-T:%d", t), "smt.mbqi=false", "auto_config=false", "smt.arith.solver=2", "smt.random_seed=7", f}
	}},
	{"cvc5-1.0", func(f string, t int) []string {
		return []string{"cvc5", "--lang=smt2", fmt.Sprintf("--tlimit=%d", t*1000), f}
	}},
	{"z3-4.8.12", func(f string, t int) []string {
		return []string{"z3", fmt.Sprintf("-T:%d", t), "smt.mbqi=false", "auto_config=false", f}
	}},
	{"z3-4.8.12-cs3", func(f string, t int) []string {
		return []string{"z3", fmt.Sprintf("-T:%d", t), "smt.mbqi=false", "auto_config=false", "smt.case_split=3", f}
	}},
	{"z3-5.1.0-mbqi", func(f string, t int) []string {
		return []string{"z3-new", fmt.Sprintf("-T:%d", t), f}
	}},
}

func firstWord(out string) string {
	for _, l := range strings.Split(out, "\n") {
		l = strings.TrimSpace(l)
		if l == "" || strings.HasPrefix(l, "WARNING") || strings.HasPrefix(l, ";") {
			continue
		}
		switch l {
		case "sat", "unsat", "unknown", "timeout":
			return l
		}
		if strings.HasPrefix(l, "(error") {
			return "error"
		}
		return "error"
	}
	return "error"
}

// procSem bounds the number of solver processes running at any time.
var procSem = make(chan struct{}, 14)

func runSolver(ctx context.Context, sp solverSpec, file string, timeoutS int) (string, string, float64) {
	select {
	case procSem <- struct{}{}:
	case <-ctx.Done():
		return "unknown", "", 0
	}
	defer func() { <-procSem }()
	args := sp.args(file, timeoutS)
	cctx, cancel := context.WithTimeout(ctx, time.Duration(timeoutS+2)*time.Second)
	defer cancel()
	cmd := exec.CommandContext(cctx, args[0], args[1:]...)
	var out bytes.Buffer
	cmd.Stdout = &out
	cmd.Stderr = &out
	t0 := time.Now()
	_ = cmd.Run()
	el := time.Since(t0).Seconds()
	if cctx.Err() != nil && ctx.Err() == nil && out.Len() == 0 {
		return "timeout", "", el
	}
	return firstWord(out.String()), out.String(), el
}

// writeObligation renders the SMT-LIB text of an obligation.
func writeObligation(prelude string, fr *FuncResult, o *Obligation, wantModel bool) string {
	cmds := fr.Cmds
	var sb strings.Builder
	if wantModel {
		sb.WriteString("(set-option :produce-models true)\n")
	}
	sb.WriteString("(set-logic ALL)\n")
	sb.WriteString(prelude)
	sb.WriteString(fr.Extra)
	sb.WriteString("; ---- function encoding ----\n")
	var anc []bool
	if o.Block >= 0 && o.Block < len(fr.Anc) {
		anc = fr.Anc[o.Block]
	}
	for i, c := range cmds[:o.Idx] {
		if anc != nil && i < len(fr.CmdTag) {
			if t := fr.CmdTag[i]; t >= 0 && t < len(anc) && !anc[t] {
				continue // emitted in a block that cannot reach this obligation
			}
		}
		sb.WriteString(c)
		sb.WriteByte('\n')
	}
	sb.WriteString("; ---- obligation " + o.Name + " ----\n")
	if o.ExtraCmd != "" {
		sb.WriteString(o.ExtraCmd)
	}
	if o.Vacuity {
		sb.WriteString("(check-sat)\n")
		return sb.String()
	}
	if o.Guard != "" && o.Guard != "true" {
		sb.WriteString("(assert " + o.Guard + ")\n")
	}
	sb.WriteString("(assert (not " + o.Goal + "))\n")
	sb.WriteString("(check-sat)\n")
	if wantModel {
		sb.WriteString("(get-model)\n")
	}
	return sb.String()
}

// stage1Only: in the quick tier an obligation that is neither in the
// baseline nor a known finding cannot change the verdict; it gets one short
// attempt only.
func (c solveConfig) stage1Only(o *Obligation) bool {
	if c.claimed == nil {
		return false
	}
	return !c.claimed[o.Name]
}

type solveConfig struct {
	claimed   map[string]bool
	dir       string
	timeoutS  int
	workers   int
	confirm   bool // thorough: confirm unsat with a second solver
	keepFiles bool
}

// solveAll discharges the obligations in parallel.
func solveAll(prelude string, opaque map[string]string, frs []*FuncResult, lemmas []*Lemma, cfg solveConfig) []*SolveResult {
	type job struct {
		o    *Obligation
		text string
		res  int // index into results
	}
	var jobs []job
	var results []*SolveResult
	for _, fr := range frs {
		for _, o := range fr.Obls {
			results = append(results, &SolveResult{Obl: o, Status: "unsat"})
			ri := len(results) - 1
			if len(o.Cases) > 0 {
				for _, c := range o.Cases {
					oc := *o
					oc.Cases = nil
					oc.Idx, oc.Guard, oc.Goal, oc.Block = c.Idx, c.Guard, c.Goal, c.Block
					jobs = append(jobs, job{o, writeObligation(prelude, fr, &oc, false), ri})
				}
			} else {
				jobs = append(jobs, job{o, writeObligation(prelude, fr, o, false), ri})
			}
		}
	}
	for _, l := range lemmas {
		o := &Obligation{Name: "lemma:" + l.Name, Kind: "lemma", Func: "spec", Props: l.Props, Desc: "specification-level lemma"}
		results = append(results, &SolveResult{Obl: o, Status: "unsat"})
		extra := ""
		for _, r := range l.Reveal {
			extra += opaque[r]
		}
		jobs = append(jobs, job{o, "(set-logic ALL)\n" + prelude + extra + "; ---- lemma " + l.Name + " ----\n" + l.Body + "(check-sat)\n", len(results) - 1})
	}
	var wg sync.WaitGroup
	var mu sync.Mutex
	sem := make(chan struct{}, cfg.workers)
	os.MkdirAll(cfg.dir, 0o755)
	for i := range jobs {
		wg.Add(1)
		sem <- struct{}{}
		go func(i int) {
			defer wg.Done()
			defer func() { <-sem }()
			j := jobs[i]
			file := filepath.Join(cfg.dir, fmt.Sprintf("o%05d.smt2", i))
			os.WriteFile(file, []byte(j.text), 0o644)
			r := solveOne(j.o, file, cfg)
			mu.Lock()
			agg := results[j.res]
			agg.TimeS += r.TimeS
			if r.TimeS > agg.MaxS {
				agg.MaxS = r.TimeS
			}
			if agg.Solver == "" {
				agg.Solver = r.Solver
			}
			if r.Confirm != "" {
				agg.Confirm = r.Confirm
			}
			// the obligation is discharged only if every case is
			if j.o.Vacuity {
				agg.Status, agg.Solver, agg.Output, agg.File = r.Status, r.Solver, r.Output, r.File
			} else if r.Status != "unsat" && agg.Status == "unsat" {
				agg.Status, agg.Solver, agg.Output, agg.File = r.Status, r.Solver, r.Output, r.File
			}
			mu.Unlock()
			if !cfg.keepFiles && (r.Status == "unsat" && !j.o.Vacuity || j.o.Vacuity && r.Status != "unsat") {
				os.Remove(file)
			}
		}(i)
	}
	wg.Wait()
	return results
}

func solveOne(o *Obligation, file string, cfg solveConfig) *SolveResult {
	ctx := context.Background()
	res := &SolveResult{Obl: o, File: file}
	// stage 1: z3 5.1 with a short limit
	short := cfg.timeoutS
	if short > 3 {
		short = 3
	}
	st, out, el := runSolver(ctx, solvers[0], file, short)
	res.TimeS += el
	done := func(s string) bool { return s == "unsat" || s == "sat" }
	if done(st) || (o.Vacuity && st == "unknown") || cfg.stage1Only(o) {
		res.Status, res.Solver, res.Output = st, solvers[0].name, out
	} else {
		// stage 2: the configuration that decides most of the hard goals, alone
		mid := cfg.timeoutS
		if mid > 10 {
			mid = 10
		}
		st2, out2, el2 := runSolver(ctx, solvers[1], file, mid)
		res.TimeS += el2
		if done(st2) {
			res.Status, res.Solver, res.Output = st2, solvers[1].name, out2
		} else {
			// stage 3: race the rest of the portfolio
			type ans struct {
				st, out, name string
				el            float64
			}
			cctx, cancel := context.WithCancel(ctx)
			rest := solvers[2:]
			if cfg.timeoutS > mid {
				rest = solvers[1:]
			}
			ch := make(chan ans, len(rest))
			for _, sp := range rest {
				go func(sp solverSpec) {
					s, o2, e2 := runSolver(cctx, sp, file, cfg.timeoutS)
					ch <- ans{s, o2, sp.name, e2}
				}(sp)
			}
			best := ans{st: st2, out: out2, name: solvers[1].name}
			if st == "unknown" {
				best = ans{st: st, out: out, name: solvers[0].name}
			}
			for range rest {
				a := <-ch
				if done(a.st) {
					best = a
					break
				} else if !done(best.st) && a.st == "unknown" {
					best = a
				}
			}
			cancel()
			res.Status, res.Solver, res.Output = best.st, best.name, best.out
			res.TimeS += best.el
		}
	}
	if res.Status == "unsat" && cfg.confirm && !o.Vacuity {
		// confirm with a different solver
		for _, sp := range solvers {
			if sp.name == res.Solver || (strings.HasPrefix(sp.name, "z3-5.1.0") && strings.HasPrefix(res.Solver, "z3-5.1.0")) || (strings.HasPrefix(sp.name, "z3-4.8.12") && strings.HasPrefix(res.Solver, "z3-4.8.12")) {
				continue
			}
			s, _, _ := runSolver(ctx, sp, file, cfg.timeoutS)
			if s == "unsat" || s == "sat" {
				res.Confirm = sp.name + ":" + s
				break
			}
		}
	}
	return res
}
