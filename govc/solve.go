package main

// solve.go — discharge of obligations by a portfolio of SMT solvers.

import (
	"sort"
	"bytes"
	"context"
	"fmt"
	"os"
	"os/exec"
	"path/filepath"
	"strings"
	"sync"
	"time"
)

type SolveResult struct {
	Obl     *Obligation
	Status  string // unsat | sat | unknown | timeout | error
	Solver  string
	TimeS   float64
	Output  string
	File    string
	Model   string
	Confirm string // second solver's verdict (thorough tier)
	MaxS    float64 // slowest single query of the obligation
	SlowSolver string // solver configuration that decided the slowest query
}

type solverSpec struct {
	name string
	args func(file string, timeoutS int) []string
}

var solvers = []solverSpec{
	{"z3-5.1.0-cs3", func(f string, t int) []string {
		return []string{"z3-new", fmt.Sprintf("-T:%d", t), "smt.mbqi=false", "auto_config=false", "smt.case_split=3", f}
	}},
	{"z3-5.1.0", func(f string, t int) []string {
		return []string{"z3-new", fmt.Sprintf("-T:%d", t), "smt.mbqi=false", "auto_config=false", f}
	}},
	{"z3-5.1.0-arith2", func(f string, t int) []string {
		return []string{"z3-new", fmt.Sprintf("-T:%d", t), "smt.mbqi=false", "auto_config=false", "smt.arith.solver=2", "smt.random_seed=7", f}
	}},
	{"cvc5-1.0", func(f string, t int) []string {
		return []string{"cvc5", "--lang=smt2", fmt.Sprintf("--tlimit=%d", t*1000), f}
	}},
	{"z3-4.8.12", func(f string, t int) []string {
		return []string{"z3", fmt.Sprintf("-T:%d", t), "smt.mbqi=false", "auto_config=false", f}
	}},
	{"z3-4.8.12-cs3", func(f string, t int) []string {
		return []string{"z3", fmt.Sprintf("-T:%d", t), "smt.mbqi=false", "auto_config=false", "smt.case_split=3", f}
	}},
	{"z3-5.1.0-mbqi", func(f string, t int) []string {
		return []string{"z3-new", fmt.Sprintf("-T:%d", t), f}
	}},
}

func firstWord(out string) string {
	for _, l := range strings.Split(out, "\n") {
		l = strings.TrimSpace(l)
		if l == "" || strings.HasPrefix(l, "WARNING") || strings.HasPrefix(l, ";") {
			continue
		}
		switch l {
		case "sat", "unsat", "unknown", "timeout":
			return l
		}
		if strings.HasPrefix(l, "(error") {
			return "error"
		}
		return "error"
	}
	return "error"
}

// procSem bounds the number of solver processes running at any time.
var procSem = make(chan struct{}, 14)

func runSolver(ctx context.Context, sp solverSpec, file string, timeoutS int) (string, string, float64) {
	select {
	case procSem <- struct{}{}:
	case <-ctx.Done():
		return "unknown", "", 0
	}
	defer func() { <-procSem }()
	args := sp.args(file, timeoutS)
	cctx, cancel := context.WithTimeout(ctx, time.Duration(timeoutS+2)*time.Second)
	defer cancel()
	cmd := exec.CommandContext(cctx, args[0], args[1:]...)
	var out bytes.Buffer
	cmd.Stdout = &out
	cmd.Stderr = &out
	t0 := time.Now()
	_ = cmd.Run()
	el := time.Since(t0).Seconds()
	if cctx.Err() != nil && ctx.Err() == nil && out.Len() == 0 {
		return "timeout", "", el
	}
	return firstWord(out.String()), out.String(), el
}

// writeObligation renders the SMT-LIB text of an obligation.
func writeObligation(prelude string, fr *FuncResult, o *Obligation, wantModel bool) string {
	cmds := fr.Cmds
	var sb strings.Builder
	if wantModel {
		sb.WriteString("(set-option :produce-models true)\n")
	}
	sb.WriteString("(set-logic ALL)\n")
	sb.WriteString(prelude)
	sb.WriteString(fr.Extra)
	sb.WriteString("; ---- function encoding ----\n")
	var anc []bool
	if o.Block >= 0 && o.Block < len(fr.Anc) {
		anc = fr.Anc[o.Block]
	}
	for i, c := range cmds[:o.Idx] {
		if anc != nil && i < len(fr.CmdTag) {
			if t := fr.CmdTag[i]; t >= 0 && t < len(anc) && !anc[t] {
				continue // emitted in a block that cannot reach this obligation
			}
		}
		sb.WriteString(c)
		sb.WriteByte('\n')
	}
	sb.WriteString("; ---- obligation " + o.Name + " ----\n")
	if o.ExtraCmd != "" {
		sb.WriteString(o.ExtraCmd)
	}
	if o.Vacuity {
		sb.WriteString("(check-sat)\n")
		return sb.String()
	}
	if o.Guard != "" && o.Guard != "true" {
		sb.WriteString("(assert " + o.Guard + ")\n")
	}
	sb.WriteString("(assert (not " + o.Goal + "))\n")
	sb.WriteString("(check-sat)\n")
	if wantModel {
		sb.WriteString("(get-model)\n")
	}
	return sb.String()
}

// stage1Only: in the quick tier an obligation that is neither in the
// baseline nor a known finding cannot change the verdict; it gets one short
// attempt only.
func (c solveConfig) stage1Only(o *Obligation) bool {
	if c.claimed == nil {
		return false
	}
	return !c.claimed[o.Name]
}

type solveConfig struct {
	phaseA    bool
	claimed   map[string]bool
	dir       string
	timeoutS  int
	workers   int
	confirm   bool // thorough: confirm unsat with a second solver
	keepFiles bool
}

// solveAll discharges the obligations in parallel.
func solveAll(prelude string, opaque map[string]string, frs []*FuncResult, lemmas []*Lemma, cfg solveConfig) []*SolveResult {
	type job struct {
		o    *Obligation
		text string
		res  int // index into results
	}
	var jobs []job
	var results []*SolveResult
	os.MkdirAll(cfg.dir, 0o755)
	// Phase A: one incremental solver session per function decides the easy
	// obligations cheaply (shared parsing and set-up); whatever it leaves
	// undecided goes to phase B (one sliced problem per query, portfolio).
	type caseRef struct {
		res  int
		o    *Obligation
		c    oblCase
		vac  bool
		done bool
	}
	perFunc := make([][]caseRef, len(frs))
	for fi, fr := range frs {
		for _, o := range fr.Obls {
			results = append(results, &SolveResult{Obl: o, Status: "unsat"})
			ri := len(results) - 1
			if len(o.Cases) > 0 {
				for _, c := range o.Cases {
					perFunc[fi] = append(perFunc[fi], caseRef{res: ri, o: o, c: c})
				}
			} else {
				perFunc[fi] = append(perFunc[fi], caseRef{res: ri, o: o, c: oblCase{Idx: o.Idx, Guard: o.Guard, Goal: o.Goal, Block: o.Block}, vac: o.Vacuity})
			}
		}
	}
	// incremental sessions replay the commands in order: queries must be sorted by the
	// number of commands they may see (call-site conditions are emitted late but look
	// at an earlier state; they must never see their own downstream assumption)
	for fi := range perFunc {
		sort.SliceStable(perFunc[fi], func(i, j int) bool { return perFunc[fi][i].c.Idx < perFunc[fi][j].c.Idx })
	}
	if cfg.phaseA {
		var wgA sync.WaitGroup
		semA := make(chan struct{}, cfg.workers)
		var muA sync.Mutex
		const chunk = 16
		type sess struct{ fi, lo, hi int }
		var sessions []sess
		for fi := range frs {
			for lo := 0; lo < len(perFunc[fi]); lo += chunk {
				hi := lo + chunk
				if hi > len(perFunc[fi]) {
					hi = len(perFunc[fi])
				}
				sessions = append(sessions, sess{fi, lo, hi})
			}
		}
		for si, se := range sessions {
			wgA.Add(1)
			semA <- struct{}{}
			go func(si int, se sess) {
				defer wgA.Done()
				defer func() { <-semA }()
				fi := se.fi
				fr := frs[fi]
				var sb strings.Builder
				sb.WriteString("(set-logic ALL)\n")
				sb.WriteString(prelude)
				sb.WriteString(fr.Extra)
				pos := 0
				mine := perFunc[fi][se.lo:se.hi]
				for _, cr := range mine {
					for ; pos < cr.c.Idx && pos < len(fr.Cmds); pos++ {
						sb.WriteString(fr.Cmds[pos])
						sb.WriteByte('\n')
					}
					sb.WriteString("(push 1)\n")
					if !cr.vac {
						if cr.c.Guard != "" && cr.c.Guard != "true" {
							sb.WriteString("(assert " + cr.c.Guard + ")\n")
						}
						sb.WriteString("(assert (not " + cr.c.Goal + "))\n")
					}
					sb.WriteString("(check-sat)\n(pop 1)\n")
				}
				file := filepath.Join(cfg.dir, fmt.Sprintf("sessA%04d.smt2", si))
				os.WriteFile(file, []byte(sb.String()), 0o644)
				procSem <- struct{}{}
				t0 := time.Now()
				cctx, cancel := context.WithTimeout(context.Background(), time.Duration(20+3*len(mine))*time.Second)
				cmd := exec.CommandContext(cctx, "z3-new", "-t:1500", "smt.mbqi=false", "auto_config=false", "smt.case_split=3", file)
				var out bytes.Buffer
				cmd.Stdout = &out
				cmd.Stderr = &out
				_ = cmd.Run()
				cancel()
				<-procSem
				el := time.Since(t0).Seconds()
				var answers []string
				for _, l := range strings.Split(out.String(), "\n") {
					l = strings.TrimSpace(l)
					if l == "sat" || l == "unsat" || l == "unknown" || l == "timeout" {
						answers = append(answers, l)
					}
				}
				muA.Lock()
				per := el / float64(len(mine))
				for k := range mine {
					if k < len(answers) {
						cr := &perFunc[fi][se.lo+k]
						if (!cr.vac && answers[k] == "unsat") || (cr.vac && answers[k] != "unsat") {
							cr.done = true
							agg := results[cr.res]
							agg.TimeS += per
							if per > agg.MaxS {
								agg.MaxS = per
								agg.SlowSolver = "z3-5.1.0-cs3"
							}
							if agg.Solver == "" {
								agg.Solver = "z3-5.1.0-cs3-incremental"
							}
							if cr.vac {
								agg.Status = answers[k]
							}
						}
					}
				}
				muA.Unlock()
				if !cfg.keepFiles {
					os.Remove(file)
				}
			}(si, se)
		}
		wgA.Wait()
	}
	for fi, fr := range frs {
		for _, cr := range perFunc[fi] {
			if cr.done {
				continue
			}
			oc := *cr.o
			oc.Cases = nil
			oc.Idx, oc.Guard, oc.Goal, oc.Block = cr.c.Idx, cr.c.Guard, cr.c.Goal, cr.c.Block
			jobs = append(jobs, job{cr.o, writeObligation(prelude, fr, &oc, false), cr.res})
		}
	}
	for _, l := range lemmas {
		// every lemma is its own unit (the prefix rule of the baseline works per unit)
		o := &Obligation{Name: "lemma:" + l.Name, Kind: "lemma", Func: "lemma:" + l.Name, Props: l.Props, Desc: "specification-level lemma"}
		results = append(results, &SolveResult{Obl: o, Status: "unsat"})
		extra := ""
		for _, r := range l.Reveal {
			extra += opaque[r]
		}
		// statements of earlier lemmas this one cites (resolved when the file was loaded)
		extra += l.UsesText
		badCite := l.BadCite != ""
		if badCite {
			o.Desc += " [bad citation " + l.BadCite + ": the cited lemma must come earlier and have a ;@provides statement]"
		}
		body := l.Body
		if badCite {
			body = "; bad citation: nothing is refuted\n" // check-sat answers sat/unknown: not discharged
		}
		// lemmas are about the specification functions themselves: native recursive definitions
		jobs = append(jobs, job{o, "(set-logic ALL)\n" + unfuel(stripAxioms(prelude, l.Proves, o)+extra) + "; ---- lemma " + l.Name + " ----\n" + body + "(check-sat)\n", len(results) - 1})
	}
	var wg sync.WaitGroup
	var mu sync.Mutex
	sem := make(chan struct{}, cfg.workers)
	for i := range jobs {
		wg.Add(1)
		sem <- struct{}{}
		go func(i int) {
			defer wg.Done()
			defer func() { <-sem }()
			j := jobs[i]
			file := filepath.Join(cfg.dir, fmt.Sprintf("o%05d.smt2", i))
			os.WriteFile(file, []byte(j.text), 0o644)
			r := solveOne(j.o, file, cfg)
			mu.Lock()
			agg := results[j.res]
			agg.TimeS += r.TimeS
			if r.TimeS > agg.MaxS {
				agg.MaxS = r.TimeS
				agg.SlowSolver = r.Solver
			}
			if agg.Solver == "" {
				agg.Solver = r.Solver
			}
			if r.Confirm != "" {
				agg.Confirm = r.Confirm
			}
			// the obligation is discharged only if every case is
			if j.o.Vacuity {
				agg.Status, agg.Solver, agg.Output, agg.File = r.Status, r.Solver, r.Output, r.File
			} else if r.Status != "unsat" && agg.Status == "unsat" {
				agg.Status, agg.Solver, agg.Output, agg.File = r.Status, r.Solver, r.Output, r.File
			}
			mu.Unlock()
			if !cfg.keepFiles && (r.Status == "unsat" && !j.o.Vacuity || j.o.Vacuity && r.Status != "unsat") {
				os.Remove(file)
			}
		}(i)
	}
	wg.Wait()
	return results
}

func solveOne(o *Obligation, file string, cfg solveConfig) *SolveResult {
	ctx := context.Background()
	res := &SolveResult{Obl: o, File: file}
	done := func(s string) bool { return s == "unsat" || s == "sat" }
	type ans struct {
		st, out, name string
		el            float64
	}
	race := func(sps []solverSpec, timeoutS int) ans {
		cctx, cancel := context.WithCancel(ctx)
		defer cancel()
		ch := make(chan ans, len(sps))
		for _, sp := range sps {
			go func(sp solverSpec) {
				s, o2, e2 := runSolver(cctx, sp, file, timeoutS)
				ch <- ans{s, o2, sp.name, e2}
			}(sp)
		}
		best := ans{st: "timeout"}
		for range sps {
			a := <-ch
			if done(a.st) {
				return a
			}
			if a.st == "unknown" || best.name == "" {
				best = a
			}
		}
		return best
	}
	// stage 1: the configuration recorded in the baseline (or the default
	// pair), with the full time limit
	first := []solverSpec{solvers[0], solvers[1]}
	if h, ok := baselineHints[o.Name]; ok && h != "" {
		for _, sp := range solvers {
			if sp.name == h && h != solvers[0].name && h != solvers[1].name {
				first = append([]solverSpec{sp}, first...)
			}
		}
	}
	if o.Kind == "lemma" {
		// specification-level lemmas: which solver succeeds varies a lot; race them all at once
		first = append([]solverSpec{}, solvers...)
	}
	t1 := cfg.timeoutS
	if o.Kind == "lemma" && t1 < 240 && !cfg.stage1Only(o) {
		t1 = 240 // inductive steps over the recursive specification functions: generous limit, they are few
	}
	if cfg.stage1Only(o) && t1 > 3 {
		t1 = 3
	}
	a := race(first, t1)
	res.TimeS += a.el
	res.Status, res.Solver, res.Output = a.st, a.name, a.out
	if !done(a.st) && !(o.Vacuity && a.st == "unknown") && !cfg.stage1Only(o) {
		var rest []solverSpec
		for _, sp := range solvers {
			used := false
			for _, f := range first {
				if f.name == sp.name {
					used = true
				}
			}
			if !used {
				rest = append(rest, sp)
			}
		}
		b := race(rest, cfg.timeoutS)
		res.TimeS += b.el
		if done(b.st) || a.st != "unknown" {
			res.Status, res.Solver, res.Output = b.st, b.name, b.out
		}
	}
	if res.Status == "unsat" && cfg.confirm && !o.Vacuity {
		// confirm with a different solver
		for _, sp := range solvers {
			if sp.name == res.Solver || (strings.HasPrefix(sp.name, "z3-5.1.0") && strings.HasPrefix(res.Solver, "z3-5.1.0")) || (strings.HasPrefix(sp.name, "z3-4.8.12") && strings.HasPrefix(res.Solver, "z3-4.8.12")) {
				continue
			}
			s, _, _ := runSolver(ctx, sp, file, cfg.timeoutS)
			if s == "unsat" || s == "sat" {
				res.Confirm = sp.name + ":" + s
				break
			}
		}
	}
	return res
}


// stripAxioms removes the named axioms (the ones a lemma is about to prove)
// from the prelude; a name that does not occur makes the lemma undischargeable.
func stripAxioms(prelude string, names []string, o *Obligation) string {
	for _, n := range names {
		b := ";@axiom-begin " + n + "\n"
		e := ";@axiom-end " + n + "\n"
		i := strings.Index(prelude, b)
		j := strings.Index(prelude, e)
		if i < 0 || j < i {
			o.Desc += " [axiom " + n + " not found in the specification]"
			return "" // an empty prelude: the lemma body cannot even be parsed, the lemma stays undischarged
		}
		prelude = prelude[:i] + prelude[j+len(e):]
	}
	return prelude
}
