package main

// sorts.go — mapping of Go types to SMT sorts, struct record datatypes,
// heap component naming.

import (
	"fmt"
	"go/types"
	"sort"
	"strings"
)

// Sorts keeps track of every datatype / heap component that has to be
// declared in the SMT prelude of an obligation.
type Sorts struct {
	structs   map[string]*StructInfo // by smt name
	structOrd []string
	// heap components in declaration order: name -> sort
	comps   map[string]string
	compOrd []string
}

type StructInfo struct {
	Name   string // smt datatype name, e.g. iavl_Node
	T      *types.Struct
	Named  *types.Named
	Fields []FieldInfo
}

type FieldInfo struct {
	Name string
	Acc  string // accessor, e.g. iavl_Node_size
	Sort string
	Type types.Type
}

func newSorts() *Sorts {
	return &Sorts{structs: map[string]*StructInfo{}, comps: map[string]string{}}
}

func sanitize(s string) string {
	var b strings.Builder
	for _, r := range s {
		switch {
		case r >= 'a' && r <= 'z', r >= 'A' && r <= 'Z', r >= '0' && r <= '9', r == '_':
			b.WriteRune(r)
		case r == '.' || r == '/' || r == '-':
			b.WriteRune('_')
		case r == '*':
			b.WriteString("P")
		case r == '[':
			b.WriteString("L")
		case r == ']':
			b.WriteString("J")
		default:
			b.WriteString("_")
		}
	}
	return b.String()
}

// shortPkg gives a short but unique-enough package prefix.
func shortPkg(p *types.Package) string {
	if p == nil {
		return "_"
	}
	path := p.Path()
	switch {
	case path == "github.com/cosmos/iavl":
		return "iavl"
	case strings.HasPrefix(path, "github.com/cosmos/iavl/v2"):
		rest := strings.TrimPrefix(path, "github.com/cosmos/iavl/v2")
		if rest == "" {
			return "v2"
		}
		return "v2_" + sanitize(strings.TrimPrefix(rest, "/"))
	case strings.HasPrefix(path, "github.com/cosmos/iavl/"):
		return sanitize(strings.TrimPrefix(path, "github.com/cosmos/iavl/"))
	}
	return sanitize(path)
}

func namedName(n *types.Named) string {
	obj := n.Obj()
	s := shortPkg(obj.Pkg()) + "_" + obj.Name()
	if ta := n.TypeArgs(); ta != nil && ta.Len() > 0 {
		for i := 0; i < ta.Len(); i++ {
			s += "_" + sanitize(ta.At(i).String())
		}
	}
	return s
}

// structName returns the smt datatype name for a struct type (named or not).
func (so *Sorts) structInfo(t types.Type) *StructInfo {
	var named *types.Named
	if n, ok := t.(*types.Named); ok {
		named = n
	}
	if a, ok := t.(*types.Alias); ok {
		return so.structInfo(types.Unalias(a))
	}
	st, ok := t.Underlying().(*types.Struct)
	if !ok {
		return nil
	}
	var name string
	if named != nil {
		name = namedName(named)
	} else {
		name = "anon_" + sanitize(st.String())
		if len(name) > 60 {
			name = fmt.Sprintf("anon_%x", hashStr(st.String()))
		}
	}
	if si, ok := so.structs[name]; ok {
		return si
	}
	si := &StructInfo{Name: name, T: st, Named: named}
	so.structs[name] = si // placeholder against recursion through pointers
	for i := 0; i < st.NumFields(); i++ {
		f := st.Field(i)
		fn := f.Name()
		if fn == "_" {
			fn = fmt.Sprintf("blank%d", i)
		}
		si.Fields = append(si.Fields, FieldInfo{Name: fn, Acc: name + "_" + fn, Sort: so.sortOf(f.Type()), Type: f.Type()})
	}
	so.structOrd = append(so.structOrd, name)
	return si
}

func hashStr(s string) uint32 {
	var h uint32 = 2166136261
	for i := 0; i < len(s); i++ {
		h ^= uint32(s[i])
		h *= 16777619
	}
	return h
}

// sortOf maps a Go type to an SMT sort.
func (so *Sorts) sortOf(t types.Type) string {
	t = types.Unalias(t)
	switch u := t.Underlying().(type) {
	case *types.Basic:
		switch {
		case u.Info()&types.IsBoolean != 0:
			return "Bool"
		case u.Info()&types.IsInteger != 0:
			return "Int"
		case u.Info()&types.IsString != 0:
			return "Slice"
		case u.Info()&types.IsFloat != 0:
			return "Real"
		case u.Kind() == types.UnsafePointer:
			return "Int"
		case u.Kind() == types.UntypedNil:
			return "Int"
		}
		return "Int"
	case *types.Pointer, *types.Map, *types.Chan, *types.Signature, *types.Interface:
		return "Int"
	case *types.Slice:
		return "Slice"
	case *types.Struct:
		si := so.structInfo(t)
		return si.Name
	case *types.Array:
		return "(Array Int " + so.sortOf(u.Elem()) + ")"
	case *types.Tuple:
		return "Int" // never used as a value sort
	case *types.TypeParam:
		return "Int"
	}
	return "Int"
}

// zeroOf gives the SMT zero value of a Go type.
func (so *Sorts) zeroOf(t types.Type) string {
	t = types.Unalias(t)
	switch u := t.Underlying().(type) {
	case *types.Basic:
		switch {
		case u.Info()&types.IsBoolean != 0:
			return "false"
		case u.Info()&types.IsString != 0:
			return "emptyStr"
		case u.Info()&types.IsFloat != 0:
			return "0.0"
		}
		return "0"
	case *types.Slice:
		return "nilS"
	case *types.Struct:
		si := so.structInfo(t)
		if len(si.Fields) == 0 {
			return "mk_" + si.Name
		}
		parts := []string{"(mk_" + si.Name}
		for _, f := range si.Fields {
			parts = append(parts, so.zeroOf(f.Type))
		}
		return strings.Join(parts, " ") + ")"
	case *types.Array:
		return "((as const (Array Int " + so.sortOf(u.Elem()) + ")) " + so.zeroOf(u.Elem()) + ")"
	}
	return "0"
}

// component names ------------------------------------------------------

// structComp is the heap component holding all objects of struct type t.
func (so *Sorts) structComp(t types.Type) string {
	si := so.structInfo(t)
	name := "H_" + si.Name
	so.addComp(name, "(Array Int "+si.Name+")")
	return name
}

// cellComp holds pointer targets of non-struct type t.
func (so *Sorts) cellComp(t types.Type) string {
	name := "C_" + sanitize(typeKey(t))
	so.addComp(name, "(Array Int "+so.sortOf(t)+")")
	return name
}

// elemComp holds slice/array backing stores with elements of type t.
func (so *Sorts) elemComp(t types.Type) string {
	name := "E_" + sanitize(typeKey(t))
	if isByte(t) {
		name = "BM"
	}
	so.addComp(name, "(Array Int (Array Int "+so.sortOf(t)+"))")
	return name
}

// mapComp holds the contents of all maps of type t; the presence component
// holds the domain.
func (so *Sorts) mapComp(t *types.Map) (val, pres string) {
	k := sanitize(typeKey(t.Key())) + "__" + sanitize(typeKey(t.Elem()))
	val, pres = "MV_"+k, "MP_"+k
	so.addComp(val, "(Array Int (Array "+so.sortOf(t.Key())+" "+so.sortOf(t.Elem())+"))")
	so.addComp(pres, "(Array Int (Array "+so.sortOf(t.Key())+" Bool))")
	return
}

func (so *Sorts) globalComp(name string, t types.Type) string {
	n := "GV_" + sanitize(name)
	so.addComp(n, so.sortOf(t))
	return n
}

func (so *Sorts) addComp(name, srt string) {
	if _, ok := so.comps[name]; !ok {
		so.comps[name] = srt
		so.compOrd = append(so.compOrd, name)
	}
}

func isByte(t types.Type) bool {
	b, ok := types.Unalias(t).Underlying().(*types.Basic)
	return ok && (b.Kind() == types.Uint8)
}

func typeKey(t types.Type) string {
	t = types.Unalias(t)
	switch u := t.(type) {
	case *types.Named:
		return namedName(u)
	case *types.Pointer:
		return "P" + typeKey(u.Elem())
	case *types.Slice:
		return "S" + typeKey(u.Elem())
	case *types.Array:
		return fmt.Sprintf("A%d%s", u.Len(), typeKey(u.Elem()))
	case *types.Basic:
		return u.Name()
	case *types.Map:
		return "M" + typeKey(u.Key()) + "_" + typeKey(u.Elem())
	case *types.Interface:
		if u.Empty() {
			return "any"
		}
		return fmt.Sprintf("iface%x", hashStr(u.String()))
	case *types.Signature:
		return fmt.Sprintf("fn%x", hashStr(u.String()))
	case *types.Struct:
		return fmt.Sprintf("st%x", hashStr(u.String()))
	case *types.Chan:
		return "ch" + typeKey(u.Elem())
	}
	return sanitize(t.String())
}

// intRange returns the inclusive range of an integer type, ok=false if the
// type is not an integer.
func intRange(t types.Type) (lo, hi string, ok bool) {
	b, isb := types.Unalias(t).Underlying().(*types.Basic)
	if !isb || b.Info()&types.IsInteger == 0 {
		return "", "", false
	}
	switch b.Kind() {
	case types.Int8:
		return "(- 128)", "127", true
	case types.Int16:
		return "(- 32768)", "32767", true
	case types.Int32:
		return "(- 2147483648)", "2147483647", true
	case types.Int, types.Int64, types.UntypedInt, types.UntypedRune:
		return "(- 9223372036854775808)", "9223372036854775807", true
	case types.Uint8:
		return "0", "255", true
	case types.Uint16:
		return "0", "65535", true
	case types.Uint32:
		return "0", "4294967295", true
	case types.Uint, types.Uint64, types.Uintptr:
		return "0", "18446744073709551615", true
	}
	return "", "", false
}

func intBits(t types.Type) (bits int, signed bool) {
	b, isb := types.Unalias(t).Underlying().(*types.Basic)
	if !isb {
		return 64, true
	}
	switch b.Kind() {
	case types.Int8:
		return 8, true
	case types.Int16:
		return 16, true
	case types.Int32:
		return 32, true
	case types.Int, types.Int64, types.UntypedInt, types.UntypedRune:
		return 64, true
	case types.Uint8:
		return 8, false
	case types.Uint16:
		return 16, false
	case types.Uint32:
		return 32, false
	case types.Uint, types.Uint64, types.Uintptr:
		return 64, false
	}
	return 64, true
}

func pow2(n int) string {
	// up to 2^64
	tbl := map[int]string{7: "128", 8: "256", 15: "32768", 16: "65536", 31: "2147483648", 32: "4294967296", 63: "9223372036854775808", 64: "18446744073709551616"}
	if s, ok := tbl[n]; ok {
		return s
	}
	// generic
	v := []byte{1}
	for i := 0; i < n; i++ {
		carry := 0
		for j := 0; j < len(v); j++ {
			d := int(v[j])*2 + carry
			v[j] = byte(d % 10)
			carry = d / 10
		}
		if carry > 0 {
			v = append(v, byte(carry))
		}
	}
	var sb strings.Builder
	for j := len(v) - 1; j >= 0; j-- {
		sb.WriteByte('0' + v[j])
	}
	return sb.String()
}

// wrapTo gives the term for converting/wrapping an unbounded integer term
// to the given integer type (two's complement semantics).
func wrapTo(term string, t types.Type) string {
	bits, signed := intBits(t)
	m := pow2(bits)
	if !signed {
		return "(mod " + term + " " + m + ")"
	}
	h := pow2(bits - 1)
	return "(let ((wm (mod " + term + " " + m + "))) (ite (>= wm " + h + ") (- wm " + m + ") wm))"
}

// typeFacts returns well-typedness facts about a value of Go type t
// (ranges of integers, slice header sanity, pointer below allocation bound).
func (so *Sorts) typeFacts(term string, t types.Type, na string) []string {
	t = types.Unalias(t)
	var out []string
	switch u := t.Underlying().(type) {
	case *types.Basic:
		if lo, hi, ok := intRange(t); ok {
			out = append(out, "(<= "+lo+" "+term+")", "(<= "+term+" "+hi+")")
		}
		if u.Info()&types.IsString != 0 {
			out = append(out, "(wfStr "+term+")")
			if na != "" {
				out = append(out, "(< (s_base "+term+") "+na+")")
			}
		}
	case *types.Slice:
		out = append(out, "(wfSlice "+term+")")
		if na != "" {
			out = append(out, "(< (s_base "+term+") "+na+")")
		}
	case *types.Pointer, *types.Map, *types.Chan:
		out = append(out, "(<= 0 "+term+")")
		if na != "" {
			out = append(out, "(< "+term+" "+na+")")
		}
	case *types.Interface, *types.Signature:
		out = append(out, "(<= 0 "+term+")")
	case *types.Struct:
		si := so.structInfo(t)
		for _, f := range si.Fields {
			out = append(out, so.typeFacts("("+f.Acc+" "+term+")", f.Type, na)...)
		}
	}
	return out
}

// declarations -----------------------------------------------------------

// datatypeDecls emits declare-datatypes for all struct records seen so far.
// Struct records may nest (by value), so they are emitted in dependency
// order (structOrd is post-order by construction).
func (so *Sorts) datatypeDecls() string {
	var sb strings.Builder
	for _, n := range so.structOrd {
		si := so.structs[n]
		if len(si.Fields) == 0 {
			fmt.Fprintf(&sb, "(declare-datatypes ((%s 0)) (((mk_%s))))\n", n, n)
			continue
		}
		fmt.Fprintf(&sb, "(declare-datatypes ((%s 0)) (((mk_%s", n, n)
		for _, f := range si.Fields {
			fmt.Fprintf(&sb, " (%s %s)", f.Acc, f.Sort)
		}
		sb.WriteString("))))\n")
	}
	return sb.String()
}

func (so *Sorts) sortedComps() []string {
	c := append([]string(nil), so.compOrd...)
	sort.Strings(c)
	return c
}

const basePrelude = `; ---- govc base prelude ----
(declare-datatypes ((Slice 0)) (((mkS (s_base Int) (s_off Int) (s_len Int) (s_cap Int)))))
(define-fun nilS () Slice (mkS 0 0 0 0))
; element index of a slice: offset + i, kept under a function symbol so that
; quantified facts about elements have arithmetic-free triggers
(declare-fun idx (Int Int) Int)
(assert (forall ((o Int) (i Int)) (! (= (idx o i) (+ o i)) :pattern ((idx o i)))))
(declare-const emptyStrBase Int)
(define-fun emptyStr () Slice (mkS 0 0 0 0))
(define-fun wfSlice ((s Slice)) Bool (and (<= 0 (s_base s)) (<= 0 (s_off s)) (<= 0 (s_len s)) (<= (s_len s) (s_cap s)) (<= (s_cap s) 140737488355328) (<= (s_off s) 140737488355328) (=> (= (s_base s) 0) (and (= (s_len s) 0) (= (s_cap s) 0) (= (s_off s) 0)))))
(define-fun wfStr ((s Slice)) Bool (and (<= 0 (s_base s)) (<= 0 (s_off s)) (<= 0 (s_len s)) (= (s_cap s) (s_len s)) (<= (s_len s) 140737488355328) (<= (s_off s) 140737488355328) (=> (= (s_base s) 0) (and (= (s_len s) 0) (= (s_off s) 0)))))
(define-fun isnil ((s Slice)) Bool (= (s_base s) 0))
; abstract content order of a byte slice: a function of the backing row, offset and length
(declare-fun ordRow ((Array Int Int) Int Int) Real)
(define-fun b2i ((b Bool)) Int (ite b 1 0))
(declare-fun dyntype (Int) Int)
(declare-fun fieldptr (Int Int Int) Int)
`
