package main

// sexp.go — minimal s-expression reader, used to rewrite the recursive
// definitions of the specification files into a "fuelled" form:
//
//   (define-fun-rec f ((x S) ...) R body)
// becomes
//   (declare-fun f (S ...) R)  (declare-fun f!C (S ...) R)
//   (assert (forall (x ...) (! (= (f!C x ...) (f x ...)) :pattern ((f x ...)))))
//   (assert (forall (x ...) (! (= (f x ...) body[f := f!C]) :pattern ((f x ...)))))
//
// so that a solver unfolds a recursive specification function exactly once
// per application that occurs in the problem, instead of descending a
// symbolic tree without end.

import (
	"strings"
)

type sx struct {
	atom string
	list []*sx
	isL  bool
}

func parseSexps(src string) ([]*sx, [][2]int) {
	var out []*sx
	var spans [][2]int
	i := 0
	n := len(src)
	var parse func() *sx
	skip := func() {
		for i < n {
			c := src[i]
			if c == ';' {
				for i < n && src[i] != '\n' {
					i++
				}
			} else if c == ' ' || c == '\t' || c == '\n' || c == '\r' {
				i++
			} else {
				return
			}
		}
	}
	parse = func() *sx {
		skip()
		if i >= n {
			return nil
		}
		if src[i] == '(' {
			i++
			node := &sx{isL: true}
			for {
				skip()
				if i >= n {
					return node
				}
				if src[i] == ')' {
					i++
					return node
				}
				node.list = append(node.list, parse())
			}
		}
		st := i
		if src[i] == '|' {
			i++
			for i < n && src[i] != '|' {
				i++
			}
			i++
		} else {
			for i < n && !strings.ContainsRune(" \t\n\r()", rune(src[i])) {
				i++
			}
		}
		return &sx{atom: src[st:i]}
	}
	for {
		skip()
		if i >= n {
			break
		}
		st := i
		s := parse()
		if s == nil {
			break
		}
		out = append(out, s)
		spans = append(spans, [2]int{st, i})
	}
	return out, spans
}

func (s *sx) String() string {
	if !s.isL {
		return s.atom
	}
	parts := make([]string, len(s.list))
	for i, c := range s.list {
		parts[i] = c.String()
	}
	return "(" + strings.Join(parts, " ") + ")"
}

func (s *sx) rename(from, to string) *sx {
	if !s.isL {
		if s.atom == from {
			return &sx{atom: to}
		}
		return s
	}
	n := &sx{isL: true}
	for _, c := range s.list {
		n.list = append(n.list, c.rename(from, to))
	}
	return n
}

// fuelRewrite rewrites every define-fun-rec of an SMT-LIB text, and turns
// (define-fun-opaque f ...) into an uninterpreted function whose defining
// axiom is only included where a contract or lemma says "reveal f".
func fuelRewrite(src string, opaque map[string]string) string {
	forms, spans := parseSexps(src)
	var sb strings.Builder
	last := 0
	for k, f := range forms {
		if f.isL && len(f.list) == 5 && f.list[0].atom == "define-fun-opaque" {
			name := f.list[1].atom
			params := f.list[2]
			var sorts, names []string
			for _, p := range params.list {
				names = append(names, p.list[0].atom)
				sorts = append(sorts, p.list[1].String())
			}
			app := "(" + name + " " + strings.Join(names, " ") + ")"
			sb.WriteString(src[last:spans[k][0]])
			sb.WriteString("(declare-fun " + name + " (" + strings.Join(sorts, " ") + ") " + f.list[3].String() + ")\n")
			opaque[name] = "(assert (forall " + params.String() + " (! (= " + app + " " + f.list[4].String() + ") :pattern (" + app + "))))\n"
			last = spans[k][1]
			continue
		}
		if !f.isL || len(f.list) != 5 || f.list[0].atom != "define-fun-rec" {
			continue
		}
		name := f.list[1].atom
		params := f.list[2]
		ret := f.list[3].String()
		body := f.list[4]
		var sorts, names []string
		for _, p := range params.list {
			names = append(names, p.list[0].atom)
			sorts = append(sorts, p.list[1].String())
		}
		app := "(" + name + " " + strings.Join(names, " ") + ")"
		appC := "(" + name + "!C " + strings.Join(names, " ") + ")"
		sb.WriteString(src[last:spans[k][0]])
		sb.WriteString("(declare-fun " + name + " (" + strings.Join(sorts, " ") + ") " + ret + ")\n")
		sb.WriteString("(declare-fun " + name + "!C (" + strings.Join(sorts, " ") + ") " + ret + ")\n")
		sb.WriteString("(assert (forall " + params.String() + " (! (= " + appC + " " + app + ") :pattern (" + app + "))))\n")
		sb.WriteString("(assert (forall " + params.String() + " (! (= " + app + " " + body.rename(name, name+"!C").String() + ") :pattern (" + app + "))))\n")
		last = spans[k][1]
	}
	sb.WriteString(src[last:])
	return sb.String()
}
