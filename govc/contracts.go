package main

// contracts.go — parsing of Gobra-style contract comments.
//
// Contracts live in comment-only files zz_verif_contracts.go (build tag
// verif) inside the repository packages, and in /verif/spec/*.spec for
// functions outside the repository (assumed contracts).
//
//   //@ func (*MutableTree).rotateRight(tree, node) (res, err)
//   //@   props C01 C02
//   //@   requires node != nil
//   //@   ensures [shape] err == nil ==> view(res) == rotR(old(view(node)))
//   //@   modifies Node.hash[*], node.leftNode
//   //@   loop 1 invariant 0 <= i && i <= n
//   //@   loop 1 decreases n - i
//   //@   decreases hgt(view(node))
//   //@   assumed      (contract is trusted, body not verified)

import (
	"bufio"
	"fmt"
	"os"
	"regexp"
	"strings"
)

type Clause struct {
	Target   string // callsite clauses: "param:<name>" (call of a function-typed parameter) or a substring of the callee key
	Internal bool // proved at function exit, not exported to callers
	Label string
	Text  string
	Line  int
	File  string
}

type LoopSpec struct {
	Invariants []Clause
	Decreases  *Clause
	Unroll     int
}

type Contract struct {
	Key       string // canonical function key
	Params    []string
	Results   []string
	Props     []string
	Requires  []Clause
	Ensures   []Clause
	Modifies  []string // raw location texts
	HasMod    bool
	Loops     map[int]*LoopSpec
	Decreases *Clause
	Assumed   bool
	Pure      bool
	NoSafety  bool // do not generate safety obligations (used for errflow-only contracts)
	Inline    bool
	MayPanic  bool
	File      string
	Line      int
	Notes     []string
	Lets      []Clause // let name = expr (evaluated in pre-state), Label holds the name
	OpaqueCalls bool
	Callsites []Clause // callsite <target> [label] expr: must hold whenever the function body calls <target> (Label = label, File/Line; target kept in Target)
	BodyReq   []Clause // bodyrequires: assumed when the body of an `assumed` contract is checked for its call-site conditions (callers need not establish it)
	Macros    []Clause // macro name = text: textual abbreviation, expanded in every clause of this contract (evaluated where it is used)
	Counts    []string // integer ghosts incremented by every call of this function (call counters)
	Allocates []string // for assumed contracts: component names that may receive fresh objects
	Bounded   string   // bounded-standin description
	Havoc     bool     // assumed: havoc all state (unknown side effects)
	Summary   bool     // callers use the computed write set of the body (never inlined, nothing assumed)
	Reveal    []string // opaque spec functions whose definition this function's proof may use
}

var kwRe = regexp.MustCompile(`^(axiom|func|props|requires|ensures|lemma|reveal|summary|modifies|loop|decreases|assumed|pure|nosafety|inline|maypanic|note|let|macro|callsite|bodyrequires|counts|allocates|bounded-standin|havoc|opaquecalls)\b`)
var funcRe = regexp.MustCompile(`^func\s+(\([^)]*\)\.)?([A-Za-z0-9_./$#\-]+)\s*\(([^)]*)\)\s*(\(([^)]*)\))?\s*$`)

// parseContractFile reads contracts from a file. pkgPath qualifies
// unqualified function names ("" for spec files, where names are given in
// full).
func parseContractFile(path, pkgPath string) ([]*Contract, []Clause, error) {
	f, err := os.Open(path)
	if err != nil {
		return nil, nil, err
	}
	defer f.Close()
	var out []*Contract
	var imports []string
	var axioms []Clause
	var cur *Contract
	var lastClause *Clause
	var lastKind string
	sc := bufio.NewScanner(f)
	sc.Buffer(make([]byte, 1<<20), 1<<20)
	ln := 0
	flushMod := func() {}
	_ = flushMod
	for sc.Scan() {
		ln++
		line := strings.TrimSpace(sc.Text())
		if !strings.HasPrefix(line, "//@") {
			continue
		}
		line = strings.TrimSpace(strings.TrimPrefix(line, "//@"))
		if line == "" {
			continue
		}
		if strings.HasPrefix(line, "axiom ") {
			rest := strings.TrimSpace(strings.TrimPrefix(line, "axiom "))
			c := Clause{Text: rest, Line: ln, File: path}
			if strings.HasPrefix(rest, "[") {
				if i := strings.Index(rest, "]"); i > 0 {
					c.Label = strings.TrimSpace(rest[1:i])
					c.Text = strings.TrimSpace(rest[i+1:])
				}
			}
			axioms = append(axioms, c)
			cur = nil
			lastClause = &axioms[len(axioms)-1]
			lastKind = "axiom"
			continue
		}
		if strings.HasPrefix(line, "import ") {
			imports = append(imports, strings.TrimSpace(strings.TrimPrefix(line, "import ")))
			continue
		}
		if !kwRe.MatchString(line) {
			// continuation of the previous clause
			if lastClause != nil {
				lastClause.Text += " " + line
			} else if lastKind == "modifies" && cur != nil {
				cur.Modifies = append(cur.Modifies, splitTop(line, ',')...)
			} else {
				return nil, nil, fmt.Errorf("%s:%d: continuation without clause: %s", path, ln, line)
			}
			continue
		}
		kw := kwRe.FindString(line)
		rest := strings.TrimSpace(line[len(kw):])
		lastClause = nil
		lastKind = kw
		if kw == "func" {
			m := funcRe.FindStringSubmatch(line)
			if m == nil {
				return nil, nil, fmt.Errorf("%s:%d: bad func header: %s", path, ln, line)
			}
			recv := strings.TrimSuffix(m[1], ".")
			name := m[2]
			key := canonKey(recv, name, pkgPath)
			cur = &Contract{Key: key, File: path, Line: ln, Loops: map[int]*LoopSpec{}}
			cur.Params = splitNames(m[3])
			cur.Results = splitNames(m[5])
			out = append(out, cur)
			continue
		}
		if cur == nil {
			return nil, nil, fmt.Errorf("%s:%d: clause outside func: %s", path, ln, line)
		}
		mkClause := func(txt string) Clause {
			c := Clause{Text: txt, Line: ln, File: path}
			if strings.HasPrefix(txt, "[") {
				if i := strings.Index(txt, "]"); i > 0 {
					c.Label = strings.TrimSpace(txt[1:i])
					c.Text = strings.TrimSpace(txt[i+1:])
				}
			}
			return c
		}
		switch kw {
		case "props":
			cur.Props = append(cur.Props, strings.Fields(rest)...)
		case "reveal":
			cur.Reveal = append(cur.Reveal, strings.Fields(strings.ReplaceAll(rest, ",", " "))...)
		case "requires":
			cur.Requires = append(cur.Requires, mkClause(rest))
			lastClause = &cur.Requires[len(cur.Requires)-1]
		case "ensures":
			cur.Ensures = append(cur.Ensures, mkClause(rest))
			lastClause = &cur.Ensures[len(cur.Ensures)-1]
		case "lemma":
			c := mkClause(rest)
			c.Internal = true
			cur.Ensures = append(cur.Ensures, c)
			lastClause = &cur.Ensures[len(cur.Ensures)-1]
		case "modifies":
			cur.HasMod = true
			if rest != "nothing" && rest != "" {
				cur.Modifies = append(cur.Modifies, splitTop(rest, ',')...)
			}
		case "opaquecalls":
			// every call in the body is treated as a call of an unknown function (no precondition
			// obligations, everything havocked, results unconstrained): for contracts that are about
			// the control flow and the call history only
			cur.OpaqueCalls = true
		case "counts":
			// counts <ghost>: every call of this function increments the integer ghost (a call counter:
			// a pure specification device, nothing is assumed about the code)
			cur.Counts = append(cur.Counts, strings.Fields(strings.ReplaceAll(rest, ",", " "))...)
		case "allocates":
			cur.Allocates = append(cur.Allocates, strings.Fields(strings.ReplaceAll(rest, ",", " "))...)
		case "decreases":
			c := mkClause(rest)
			cur.Decreases = &c
			lastClause = cur.Decreases
		case "assumed":
			cur.Assumed = true
			if rest != "" {
				cur.Notes = append(cur.Notes, rest)
			}
		case "havoc":
			cur.Havoc = true
		case "summary":
			// no contract of its own: callers use the write set computed from the body
			cur.Summary = true
		case "pure":
			cur.Pure = true
		case "nosafety":
			cur.NoSafety = true
		case "inline":
			cur.Inline = true
		case "maypanic":
			cur.MayPanic = true
		case "note":
			cur.Notes = append(cur.Notes, rest)
		case "bounded-standin":
			cur.Bounded = rest
		case "let":
			i := strings.Index(rest, "=")
			if i < 0 {
				return nil, nil, fmt.Errorf("%s:%d: bad let", path, ln)
			}
			c := Clause{Label: strings.TrimSpace(rest[:i]), Text: strings.TrimSpace(rest[i+1:]), Line: ln, File: path}
			cur.Lets = append(cur.Lets, c)
			lastClause = &cur.Lets[len(cur.Lets)-1]
		case "bodyrequires":
			cur.BodyReq = append(cur.BodyReq, mkClause(rest))
			lastClause = &cur.BodyReq[len(cur.BodyReq)-1]
		case "callsite":
			fs := strings.Fields(rest)
			if len(fs) < 2 {
				return nil, nil, fmt.Errorf("%s:%d: bad callsite clause", path, ln)
			}
			c := mkClause(strings.TrimSpace(strings.TrimPrefix(rest, fs[0])))
			c.Target = fs[0]
			cur.Callsites = append(cur.Callsites, c)
			lastClause = &cur.Callsites[len(cur.Callsites)-1]
		case "macro":
			i := strings.Index(rest, "=")
			if i < 0 {
				return nil, nil, fmt.Errorf("%s:%d: bad macro", path, ln)
			}
			c := Clause{Label: strings.TrimSpace(rest[:i]), Text: strings.TrimSpace(rest[i+1:]), Line: ln, File: path}
			cur.Macros = append(cur.Macros, c)
			lastClause = &cur.Macros[len(cur.Macros)-1]
		case "loop":
			fs := strings.Fields(rest)
			if len(fs) < 2 {
				return nil, nil, fmt.Errorf("%s:%d: bad loop clause", path, ln)
			}
			var k int
			fmt.Sscanf(strings.TrimSuffix(fs[0], ":"), "%d", &k)
			ls := cur.Loops[k]
			if ls == nil {
				ls = &LoopSpec{}
				cur.Loops[k] = ls
			}
			body := strings.TrimSpace(strings.TrimPrefix(strings.TrimSpace(strings.TrimPrefix(rest, fs[0])), fs[1]))
			switch fs[1] {
			case "invariant":
				ls.Invariants = append(ls.Invariants, mkClause(body))
				lastClause = &ls.Invariants[len(ls.Invariants)-1]
			case "decreases":
				c := mkClause(body)
				ls.Decreases = &c
				lastClause = ls.Decreases
			case "unroll":
				fmt.Sscanf(body, "%d", &ls.Unroll)
			default:
				return nil, nil, fmt.Errorf("%s:%d: bad loop clause kind %s", path, ln, fs[1])
			}
		}
	}
	_ = imports
	for _, ct := range out {
		ct.expandMacros()
	}
	return out, axioms, sc.Err()
}

// expandMacros substitutes macro names (whole identifiers) by their
// parenthesised text; a macro may use macros defined before it.
var historyRe = regexp.MustCompile(`\b(calls|result|allok|athead)\(`)

func (ct *Contract) expandMacros() {
	// postconditions over the activation's own call history are proved at function exit and are
	// meaningless to a caller: not exported
	defer func() {
		for i := range ct.Ensures {
			if historyRe.MatchString(ct.Ensures[i].Text) {
				ct.Ensures[i].Internal = true
			}
		}
	}()
	if len(ct.Macros) == 0 {
		return
	}
	exp := func(txt string) string {
		for i := len(ct.Macros) - 1; i >= 0; i-- {
			m := ct.Macros[i]
			re := regexp.MustCompile(`\b` + regexp.QuoteMeta(m.Label) + `\b`)
			txt = re.ReplaceAllLiteralString(txt, "("+m.Text+")")
		}
		return txt
	}
	for i := range ct.Requires {
		ct.Requires[i].Text = exp(ct.Requires[i].Text)
	}
	for i := range ct.Ensures {
		ct.Ensures[i].Text = exp(ct.Ensures[i].Text)
	}
	for i := range ct.Lets {
		ct.Lets[i].Text = exp(ct.Lets[i].Text)
	}
	for i := range ct.Callsites {
		ct.Callsites[i].Text = exp(ct.Callsites[i].Text)
	}
	for _, ls := range ct.Loops {
		for i := range ls.Invariants {
			ls.Invariants[i].Text = exp(ls.Invariants[i].Text)
		}
	}
}

func splitNames(s string) []string {
	var out []string
	for _, p := range strings.Split(s, ",") {
		p = strings.TrimSpace(p)
		if p != "" {
			out = append(out, p)
		}
	}
	return out
}

// canonKey builds the key used by ssa.Function.String():
//   (*pkg/path.T).method, (pkg/path.T).method, pkg/path.func
// recv is like "(*MutableTree)" or "(io.Writer)"; name may be qualified
// ("bytes.Compare") in spec files.
func canonKey(recv, name, pkgPath string) string {
	qual := func(tn string) string {
		// tn like MutableTree or io.Writer or bytes.Buffer
		if strings.Contains(tn, ".") || strings.Contains(tn, "/") {
			return tn
		}
		if pkgPath == "" {
			return tn
		}
		return pkgPath + "." + tn
	}
	if recv != "" {
		r := strings.TrimSuffix(strings.TrimPrefix(recv, "("), ")")
		ptr := strings.HasPrefix(r, "*")
		r = strings.TrimPrefix(r, "*")
		r = qual(r)
		if ptr {
			return "(*" + r + ")." + name
		}
		return "(" + r + ")." + name
	}
	if strings.Contains(name, ".") || pkgPath == "" {
		// qualified already; "name$1" closures have no dot in the last path element unless qualified
		if strings.Contains(name, ".") {
			return name
		}
		return name
	}
	return pkgPath + "." + name
}

// splitTop splits s at top-level occurrences of sep (outside parentheses/brackets).
func splitTop(s string, sep byte) []string {
	var out []string
	depth := 0
	start := 0
	for i := 0; i < len(s); i++ {
		switch s[i] {
		case '(', '[', '{':
			depth++
		case ')', ']', '}':
			depth--
		default:
			if s[i] == sep && depth == 0 {
				out = append(out, strings.TrimSpace(s[start:i]))
				start = i + 1
			}
		}
	}
	if t := strings.TrimSpace(s[start:]); t != "" {
		out = append(out, t)
	}
	return out
}

// rewriteImplies turns "a ==> b" (lowest precedence, right associative,
// also inside parentheses and call arguments) into imp(a, b) so that the
// Go expression parser can be used on the result.
func rewriteImplies(s string) string {
	if !strings.Contains(s, "==>") {
		return s
	}
	if strings.Contains(s, "\"") {
		// string literals may hold unbalanced brackets: mask them while the text is restructured
		var lits []string
		masked := strLitRe.ReplaceAllStringFunc(s, func(m string) string {
			lits = append(lits, m)
			return fmt.Sprintf("__strlit%d__", len(lits)-1)
		})
		out := rewriteImplies(masked)
		for i, l := range lits {
			out = strings.Replace(out, fmt.Sprintf("__strlit%d__", i), l, -1)
		}
		return out
	}
	// split at top-level commas first (argument lists)
	parts := splitTopKeep(s, ',')
	if len(parts) > 1 {
		for i := range parts {
			parts[i] = rewriteImplies(parts[i])
		}
		return strings.Join(parts, ", ")
	}
	// top-level implication?
	depth := 0
	for i := 0; i+2 < len(s); i++ {
		switch s[i] {
		case '(', '[', '{':
			depth++
		case ')', ']', '}':
			depth--
		}
		if depth == 0 && s[i] == '=' && s[i+1] == '=' && s[i+2] == '>' {
			return "imp(" + rewriteImplies(strings.TrimSpace(s[:i])) + ", " + rewriteImplies(strings.TrimSpace(s[i+3:])) + ")"
		}
	}
	// descend into parenthesised groups
	var sb strings.Builder
	i := 0
	for i < len(s) {
		if s[i] == '(' || s[i] == '[' {
			open := s[i]
			cl := byte(')')
			if open == '[' {
				cl = ']'
			}
			d := 1
			j := i + 1
			for j < len(s) && d > 0 {
				if s[j] == open {
					d++
				} else if s[j] == cl {
					d--
				}
				j++
			}
			sb.WriteByte(open)
			sb.WriteString(rewriteImplies(s[i+1 : j-1]))
			sb.WriteByte(cl)
			i = j
			continue
		}
		sb.WriteByte(s[i])
		i++
	}
	return sb.String()
}

func splitTopKeep(s string, sep byte) []string {
	var out []string
	depth := 0
	start := 0
	for i := 0; i < len(s); i++ {
		switch s[i] {
		case '(', '[', '{':
			depth++
		case ')', ']', '}':
			depth--
		default:
			if s[i] == sep && depth == 0 {
				out = append(out, s[start:i])
				start = i + 1
			}
		}
	}
	out = append(out, s[start:])
	return out
}

var resultRe = regexp.MustCompile(`\bresult\("([^"]+)"`)
var strLitRe = regexp.MustCompile(`"[^"]*"`)
var allokRe = regexp.MustCompile(`\ballok\("([^"]+)",\s*(\d+)\)`)
var callsRe = regexp.MustCompile(`\bcalls\("([^"]+)"\)`)

// allClauseTexts: the text of every clause of the contract (macros included).
func (c *Contract) allClauseTexts() []string {
	var out []string
	add := func(cs []Clause) {
		for _, cl := range cs {
			out = append(out, cl.Text)
		}
	}
	add(c.Requires)
	add(c.Ensures)
	for _, cs := range c.Callsites {
		out = append(out, cs.Text)
	}
	for _, l := range c.Loops {
		if l != nil {
			add(l.Invariants)
		}
	}
	for _, m := range c.Macros {
		out = append(out, m.Text)
	}
	return out
}
