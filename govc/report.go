package main

// report.go — verdicts, baseline, known findings, evidence files.

import (
	"bufio"
	"fmt"
	"os"
	"path/filepath"
	"sort"
	"strings"
)

type Report struct {
	eng       *Engine
	props     []string
	tier      string
	seed      int
	wall      float64
	loadS     float64
	genS      float64
	results   []*SolveResult
	frs       []*FuncResult
	baseline  map[string][]string // name -> props
	known     []knownFinding
	updBase   bool
	engineErr []string
	canaries  int // false lemmas that (correctly) could not be proved
	partial   bool // only a subset of functions was generated (-only): vanished obligations are not reported
}

type knownFinding struct {
	Kind       string // known | fixed
	Property   string
	Obligation string
	Witness    string
	Text       string
}

type levelInfo struct {
	Level       string   `json:"level"`
	Explanation string   `json:"explanation"`
	Assumptions []string `json:"assumptions"`
	Uncovered   []string `json:"uncovered"`
}

// baselineHints: obligation name -> solver configuration that decided its
// slowest query when the baseline was written (tried first at check time).
var baselineHints = map[string]string{}

func readBaseline(path string) map[string][]string {
	out := map[string][]string{}
	f, err := os.Open(path)
	if err != nil {
		return out
	}
	defer f.Close()
	sc := bufio.NewScanner(f)
	sc.Buffer(make([]byte, 1<<20), 1<<20)
	for sc.Scan() {
		l := strings.TrimSpace(sc.Text())
		if l == "" || strings.HasPrefix(l, "#") {
			continue
		}
		i := strings.IndexByte(l, ' ')
		if i < 0 {
			continue
		}
		rest := l[i+1:]
		if j := strings.LastIndex(rest, " @"); j > 0 {
			baselineHints[rest[:j]] = rest[j+2:]
			rest = rest[:j]
		}
		out[rest] = strings.Split(l[:i], ",")
	}
	return out
}

func writeBaseline(path string, b map[string][]string) error {
	var names []string
	for n := range b {
		names = append(names, n)
	}
	sort.Strings(names)
	var sb strings.Builder
	sb.WriteString("# obligations discharged on the pinned tree (written by `govc check -update-baseline`, never at check time)\n")
	for _, n := range names {
		ps := append([]string(nil), b[n]...)
		sort.Strings(ps)
		hint := ""
		if h, ok := baselineHints[n]; ok && h != "" && h != "z3-5.1.0-cs3" {
			hint = " @" + h
		}
		sb.WriteString(strings.Join(ps, ",") + " " + n + hint + "\n")
	}
	return os.WriteFile(path, []byte(sb.String()), 0o644)
}

func readKnown(path string) []knownFinding {
	var out []knownFinding
	b, err := os.ReadFile(path)
	if err != nil {
		return out
	}
	for _, l := range strings.Split(string(b), "\n") {
		l = strings.TrimSpace(l)
		if l == "" || strings.HasPrefix(l, "#") {
			continue
		}
		var k knownFinding
		switch {
		case strings.HasPrefix(l, "known:"):
			k.Kind = "known"
			l = strings.TrimSpace(strings.TrimPrefix(l, "known:"))
		case strings.HasPrefix(l, "fixed:"):
			k.Kind = "fixed"
			l = strings.TrimSpace(strings.TrimPrefix(l, "fixed:"))
		default:
			continue
		}
		fs := strings.Fields(l)
		var rest []string
		for _, f := range fs {
			switch {
			case strings.HasPrefix(f, "property="):
				k.Property = strings.TrimPrefix(f, "property=")
			case strings.HasPrefix(f, "obligation="):
				k.Obligation = strings.TrimPrefix(f, "obligation=")
			case strings.HasPrefix(f, "witness="):
				k.Witness = strings.TrimPrefix(f, "witness=")
			default:
				rest = append(rest, f)
			}
		}
		k.Text = strings.Join(rest, " ")
		out = append(out, k)
	}
	return out
}

func buildReport(e *Engine, frs []*FuncResult, results []*SolveResult, props []string, tier string, seed int, verif string, wall, loadS, genS float64, updBase, verbose bool) *Report {
	r := &Report{eng: e, props: props, tier: tier, seed: seed, wall: wall, loadS: loadS, genS: genS, results: results, frs: frs, updBase: updBase}
	r.baseline = readBaseline(filepath.Join(verif, "baseline_obligations.txt"))
	r.known = readKnown(filepath.Join(verif, "known_findings.txt"))
	return r
}

type propVerdict struct {
	Prop        string
	Claimed     []*SolveResult // in baseline or known
	Discharged  []*SolveResult
	Known       []*SolveResult
	Violations  []*SolveResult
	Undecided   []*SolveResult
	Vanished    []string
	VacuityBad  []*SolveResult
	Funcs       map[string]bool
	Backends    map[string]int
	SolverTime  float64
	Notes       map[string]bool
	Unconfirmed []*SolveResult
}

// contractLevel: obligation kinds whose disappearance means the proof
// carrier is gone.
func contractLevel(name string) bool {
	return strings.Contains(name, "#post:") || strings.Contains(name, "#frame:") || strings.HasPrefix(name, "lemma:") || strings.Contains(name, "#inv-") || strings.Contains(name, "#callsite:")
}

func (r *Report) emit(verif string, writeEvidence, verbose bool) int {
	// all properties touched
	propSet := map[string]bool{}
	for _, p := range r.props {
		propSet[p] = true
	}
	if len(r.props) == 0 {
		for _, res := range r.results {
			for _, p := range res.Obl.Props {
				propSet[p] = true
			}
		}
	}
	var plist []string
	for p := range propSet {
		plist = append(plist, p)
	}
	sort.Strings(plist)
	levels := map[string]levelInfo{}
	readJSONFile(filepath.Join(verif, "levels.json"), &levels)
	exit := 0
	for _, fr := range r.frs {
		for _, n := range fr.Notes {
			if strings.HasPrefix(n, "ENGINE PANIC") {
				r.engineErr = append(r.engineErr, fr.Func+": "+n)
			}
		}
	}
	for _, se := range r.eng.specErrs {
		fmt.Println("SPEC-ERROR:", se)
	}
	// canary lemmas state something false: they must NOT be provable.  A proved canary means the
	// specification prelude (its axioms) is inconsistent and every proof of this run is worthless.
	var kept []*SolveResult
	for _, res := range r.results {
		if strings.HasPrefix(res.Obl.Name, "lemma:canary_") {
			r.canaries++
			if res.Status == "unsat" {
				r.engineErr = append(r.engineErr, "canary "+res.Obl.Name+" was proved: the specification prelude is inconsistent")
			}
			continue
		}
		kept = append(kept, res)
	}
	r.results = kept
	// baseline update
	if r.updBase {
		// drop entries of the selected properties, then add what discharged now
		verified := map[string]bool{}
		for _, res := range r.results {
			verified[res.Obl.Func] = true
		}
		for n, ps := range r.baseline {
			if len(r.props) == 0 || intersects(ps, r.props) {
				if r.partial {
					// a run restricted with -only replaces the entries of the functions it verified, nothing else
					fn := n
					if i := strings.Index(n, "#"); i > 0 {
						fn = n[:i]
					}
					if !verified[fn] && !verified[fn+"#errflow"] {
						continue
					}
				}
				delete(r.baseline, n)
				delete(baselineHints, n)
			}
		}
		// Every obligation is assumed once it has been checked, so an obligation
		// is only as good as the ones before it in the same function: claim the
		// longest prefix (in generation order) that is discharged fast enough.
		byFunc := map[string][]*SolveResult{}
		for _, res := range r.results {
			if res.Obl.Vacuity {
				continue
			}
			byFunc[res.Obl.Func] = append(byFunc[res.Obl.Func], res)
		}
		for _, rs := range byFunc {
			sort.SliceStable(rs, func(i, j int) bool {
				if rs[i].Obl.Seq != rs[j].Obl.Seq {
					return rs[i].Obl.Seq < rs[j].Obl.Seq
				}
				// a call-site clause sits at its first call site, before whatever was generated next
				return rs[i].Obl.Kind == "callsite" && rs[j].Obl.Kind != "callsite"
			})
			for _, res := range rs {
				if os.Getenv("GOVC_SEQ_DEBUG") != "" {
					fmt.Fprintf(os.Stderr, "seq %d %s %s\n", res.Obl.Seq, res.Status, res.Obl.Name)
				}
				limit := 20.0
				if res.Obl.Kind == "lemma" {
					limit = 80.0 // lemmas run with a 240 s limit: the same safety factor of three
				}
				if !(res.Status == "unsat" && res.MaxS < limit) {
					fmt.Printf("baseline: %s stops at %s (%s, %.1fs)\n", shortKey(res.Obl.Func), shortKey(res.Obl.Name), res.Status, res.MaxS)
					break
				}
				r.baseline[res.Obl.Name] = res.Obl.Props
				baselineHints[res.Obl.Name] = res.SlowSolver
			}
		}
		if err := writeBaseline(filepath.Join(verif, "baseline_obligations.txt"), r.baseline); err != nil {
			fmt.Fprintln(os.Stderr, err)
		}
	}
	generated := map[string]bool{}
	for _, res := range r.results {
		generated[res.Obl.Name] = true
	}
	for _, p := range plist {
		v := &propVerdict{Prop: p, Funcs: map[string]bool{}, Backends: map[string]int{}, Notes: map[string]bool{}}
		for _, res := range r.results {
			if !has(res.Obl.Props, p) {
				continue
			}
			v.SolverTime += res.TimeS
			if res.Obl.Vacuity {
				if res.Status == "unsat" {
					v.VacuityBad = append(v.VacuityBad, res)
				}
				continue
			}
			_, inBase := r.baseline[res.Obl.Name]
			var kf *knownFinding
			for i := range r.known {
				if r.known[i].Kind == "known" && r.known[i].Property == p && r.known[i].Obligation == res.Obl.Name {
					kf = &r.known[i]
				}
			}
			ok := res.Status == "unsat"
			if ok && r.tier == "thorough" && strings.HasSuffix(res.Confirm, ":sat") {
				r.engineErr = append(r.engineErr, "solver disagreement on "+res.Obl.Name+": "+res.Solver+"=unsat "+res.Confirm)
			}
			switch {
			case ok:
				if inBase || kf != nil {
					v.Claimed = append(v.Claimed, res)
				}
				v.Discharged = append(v.Discharged, res)
				v.Backends[res.Solver]++
				v.Funcs[res.Obl.Func] = true
			case kf != nil:
				v.Claimed = append(v.Claimed, res)
				v.Known = append(v.Known, res)
				fmt.Printf("KNOWN-FINDING: property=%s %s [%s]\n", p, kf.Text, res.Obl.Name)
			case inBase:
				v.Claimed = append(v.Claimed, res)
				v.Violations = append(v.Violations, res)
			default:
				v.Undecided = append(v.Undecided, res)
			}
		}
		for n, ps := range r.baseline {
			if has(ps, p) && !generated[n] && contractLevel(n) && !r.partial {
				v.Vanished = append(v.Vanished, n)
			}
		}
		sort.Strings(v.Vanished)
		for _, fr := range r.frs {
			for _, n := range fr.Notes {
				for _, o := range fr.Obls {
					if has(o.Props, p) {
						v.Notes[n] = true
						break
					}
				}
			}
		}
		// violations
		replayDir := filepath.Join(verif, "replay", p)
		nviol := 0
		for _, res := range v.Violations {
			os.MkdirAll(replayDir, 0o755)
			path := filepath.Join(replayDir, sanitize(shortKey(res.Obl.Name))+".txt")
			confirmed := writeReplay(r.eng, path, res, r.frs)
			nviol++
			exit = 1
			if confirmed {
				fmt.Printf("VIOLATION property=%s replay=%s obligation=%s\n", p, path, res.Obl.Name)
			} else {
				fmt.Printf("VIOLATION property=%s replay=%s obligation=%s no-failing-input-found\n", p, path, res.Obl.Name)
			}
		}
		for _, n := range v.Vanished {
			os.MkdirAll(replayDir, 0o755)
			path := filepath.Join(replayDir, sanitize(shortKey(n))+".txt")
			os.WriteFile(path, []byte("obligation: "+n+"\nstatus: the obligation was discharged on the pinned tree and can no longer be generated\n(the contracted function, loop or clause it belongs to is gone, or its contract can no longer be interpreted against the code).\nspec errors of this run:\n"+strings.Join(r.eng.specErrs, "\n")+"\n"), 0o644)
			nviol++
			exit = 1
			fmt.Printf("VIOLATION property=%s replay=%s obligation=%s no-failing-input-found\n", p, path, n)
		}
		for _, res := range v.VacuityBad {
			r.engineErr = append(r.engineErr, "vacuous precondition: "+res.Obl.Name)
		}
		if verbose {
			for _, res := range v.Undecided {
				fmt.Printf("UNDECIDED property=%s obligation=%s status=%s (%s) %s\n", p, res.Obl.Name, res.Status, res.Obl.Desc, res.Obl.Pos)
			}
		}
		nclaimed := len(v.Claimed) + len(v.Vanished)
		fmt.Printf("property %s: %d obligations claimed, %d discharged (all generated: %d discharged of %d), %d known findings, %d violations, %d undecided (unclaimed), solver %.1fs\n",
			p, nclaimed, len(v.Claimed)-len(v.Known)-len(v.Violations), len(v.Discharged), len(v.Discharged)+len(v.Known)+len(v.Violations)+len(v.Undecided), len(v.Known), nviol, len(v.Undecided), v.SolverTime)
		if nclaimed == 0 && !r.updBase {
			r.engineErr = append(r.engineErr, "no claimed obligations for property "+p+" (vacuous check)")
		}
		if writeEvidence {
			r.writeEvidence(verif, v, levels[p], nviol)
		}
	}
	if len(r.engineErr) > 0 {
		for _, s := range r.engineErr {
			fmt.Println("ENGINE-ERROR:", s)
		}
		if exit == 0 {
			exit = 3
		}
	}
	return exit
}

func (r *Report) writeEvidence(verif string, v *propVerdict, li levelInfo, nviol int) {
	level := li.Level
	if level == "" {
		level = "other"
	}
	nclaimed := len(v.Claimed) + len(v.Vanished)
	ndis := len(v.Claimed) - len(v.Known) - len(v.Violations)
	if level == "proof" && ndis != nclaimed {
		level = "other"
	}
	var funcs []string
	for f := range v.Funcs {
		funcs = append(funcs, shortKey(f))
	}
	sort.Strings(funcs)
	var samples []map[string]interface{}
	for i, res := range v.Claimed {
		if i%((len(v.Claimed)/12)+1) != 0 {
			continue
		}
		samples = append(samples, map[string]interface{}{"obligation": shortKey(res.Obl.Name), "kind": res.Obl.Kind, "status": res.Status, "solver": res.Solver, "time_s": round3(res.TimeS), "what": res.Obl.Desc})
	}
	var undec []string
	for _, res := range v.Undecided {
		undec = append(undec, shortKey(res.Obl.Name)+" ["+res.Status+"]")
	}
	sort.Strings(undec)
	var known []string
	for _, res := range v.Known {
		known = append(known, shortKey(res.Obl.Name))
	}
	var notes []string
	for n := range v.Notes {
		notes = append(notes, n)
	}
	sort.Strings(notes)
	var assumed []string
	for _, k := range r.eng.ctOrder {
		ct := r.eng.contracts[k]
		if ct.Assumed {
			assumed = append(assumed, shortKey(k))
		}
	}
	sort.Strings(assumed)
	assumptions := append([]string(nil), li.Assumptions...)
	assumptions = append(assumptions,
		"govc itself (SSA-to-SMT translation, heap-as-arrays memory model, frame generation), go/ssa, and the SMT solvers are trusted",
		"machine integers are modelled exactly (two's complement wrap-around on mathematical integers); byte-slice contents are abstracted by an injective content order unless a function indexes bytes",
		"append is modelled as always copying; a typed nil inside an interface is not modelled; goroutines/channels are not modelled",
		"assumed (unverified) contracts of external functions: "+strings.Join(assumed, ", "),
		"closed world for init-only fields: an unexported field of an unexported struct type that the exported API never hands out and that the repository only stores into objects the storing function allocated itself is kept across calls of unknown code (user callbacks); package unsafe and reflection are not considered; every value of slice/string type read from the heap points into allocated memory (heap typing)",
	)
	for _, n := range notes {
		assumptions = append(assumptions, "engine note: "+n)
	}
	expl := li.Explanation
	if len(li.Uncovered) > 0 {
		expl += " NOT DECIDED: " + strings.Join(li.Uncovered, "; ")
	}
	if len(known) > 0 {
		expl += fmt.Sprintf(" %d obligation(s) fail on the pinned tree and are listed as known findings.", len(known))
	}
	if expl == "" {
		expl = "contract-based deductive verification of the real code: obligations generated from go/ssa of /repo's working tree and discharged by SMT"
	}
	cov := map[string]interface{}{
		"obligations":              nclaimed,
		"discharged":               ndis,
		"checker_cmd":              "bin/govc check -props " + v.Prop + " -tier " + r.tier + "   (solvers: z3-new 5.1.0, cvc5 1.0, z3 4.8.12; first definitive answer wins)",
		"trusted_base":             []string{"govc (this repository's VC generator)", "golang.org/x/tools/go/ssa v0.29.0", "z3 5.1.0", "cvc5 1.0", "z3 4.8.12", "assumed contracts in /verif/spec/*.spec"},
		"explanation":              expl,
		"samples":                  samples,
		"functions_under_contract": funcs,
		"obligations_generated":    len(v.Discharged) + len(v.Known) + len(v.Violations) + len(v.Undecided),
		"discharged_generated":     len(v.Discharged),
		"known_failing":            known,
		"undecided_unclaimed":      undec,
		"vanished":                 v.Vanished,
		"backends":                 v.Backends,
		"solver_time_s":            round3(v.SolverTime),
		"load_s":                   round3(r.loadS),
		"generation_s":             round3(r.genS),
		"bounded":                  []string{},
		"evaluations":              len(v.Discharged) + len(v.Known) + len(v.Violations) + len(v.Undecided),
		"distinct_nontrivial":      len(v.Discharged),
		"rule":                     "one evaluation = one proof obligation generated from the current source and sent to the solver portfolio; distinct_nontrivial = obligations discharged (unsat), each obligation name being unique",
	}
	ev := map[string]interface{}{
		"property_id": v.Prop,
		"tier":        r.tier,
		"seed":        r.seed,
		"level":       level,
		"coverage":    cov,
		"assumptions": assumptions,
		"wall_s":      round3(r.wall),
		"violations":  nviol,
	}
	os.MkdirAll(filepath.Join(verif, "evidence"), 0o755)
	writeJSON(filepath.Join(verif, "evidence", v.Prop+".json"), ev)
}

func round3(f float64) float64 { return float64(int(f*1000)) / 1000 }

func readJSONFile(path string, v interface{}) {
	b, err := os.ReadFile(path)
	if err != nil {
		return
	}
	jsonUnmarshal(b, v)
}

// writeReplay records a failed obligation; returns true if a failing input
// was confirmed on the real code.
func writeReplay(e *Engine, path string, res *SolveResult, frs []*FuncResult) bool {
	var sb strings.Builder
	sb.WriteString("obligation: " + res.Obl.Name + "\n")
	sb.WriteString("kind: " + res.Obl.Kind + "\n")
	sb.WriteString("what: " + res.Obl.Desc + "\n")
	sb.WriteString("source: " + res.Obl.Pos + "\n")
	sb.WriteString("status: " + res.Status + " (solver " + res.Solver + ")\n")
	sb.WriteString("smt file: " + res.File + "\n")
	confirmed := false
	rp := tryReplay(e, res, frs)
	if rp != nil {
		sb.WriteString("\n---- replay on the real code ----\n" + rp.Log + "\n")
		confirmed = rp.Confirmed
		if rp.TestSrc != "" {
			os.WriteFile(strings.TrimSuffix(path, ".txt")+"_test.go.txt", []byte(rp.TestSrc), 0o644)
			sb.WriteString("replay test source: " + strings.TrimSuffix(path, ".txt") + "_test.go.txt\n")
			sb.WriteString("replay package dir: " + rp.PkgDir + "\n")
		}
	}
	sb.WriteString("\n---- solver output ----\n" + truncate(res.Output, 20000) + "\n")
	if b, err := os.ReadFile(res.File); err == nil {
		os.WriteFile(strings.TrimSuffix(path, ".txt")+".smt2", b, 0o644)
	}
	os.WriteFile(path, []byte(sb.String()), 0o644)
	return confirmed
}

func truncate(s string, n int) string {
	if len(s) > n {
		return s[:n] + "\n…(truncated)"
	}
	return s
}
