package main

// replay.go — turning solver output into executions of the real code.
//
// A failed obligation of a function whose parameters are integers, booleans,
// strings and byte slices is replayed as follows: the obligation's query is
// weakened (every quantified assertion is dropped, slice lengths are bounded)
// so that the solver returns a concrete candidate input quickly; the candidate
// is then EXECUTED against the real function through `go test -overlay` (an
// in-package test, nothing is written into the repository).  Only the
// execution decides: a candidate that makes the real code panic confirms a
// failing input; anything else leaves the verdict "no-failing-input-found".

import (
	"bytes"
	"context"
	"encoding/json"
	"fmt"
	"go/types"
	"os"
	"os/exec"
	"path/filepath"
	"regexp"
	"strconv"
	"strings"
	"time"

	"golang.org/x/tools/go/ssa"
)

type ReplayResult struct {
	Confirmed bool
	Log       string
	TestSrc   string
	PkgDir    string
}

func jsonUnmarshal(b []byte, v interface{}) error { return json.Unmarshal(b, v) }

type replayParam struct {
	name string // SMT symbol
	kind string // int | bool | bytes | string
	gty  string // Go type text
}

func replayable(fn *ssa.Function) ([]replayParam, bool) {
	if fn == nil || fn.Signature.Recv() != nil || fn.Parent() != nil || fn.Pkg == nil || fn.TypeParams().Len() > 0 {
		return nil, false
	}
	var ps []replayParam
	for _, p := range fn.Params {
		rp := replayParam{name: "p_" + sanitize(p.Name()), gty: types.TypeString(p.Type(), func(*types.Package) string { return "" })}
		switch u := p.Type().Underlying().(type) {
		case *types.Basic:
			switch {
			case u.Info()&types.IsInteger != 0:
				rp.kind = "int"
			case u.Info()&types.IsBoolean != 0:
				rp.kind = "bool"
			case u.Info()&types.IsString != 0:
				rp.kind = "string"
			default:
				return nil, false
			}
		case *types.Slice:
			b, ok := u.Elem().Underlying().(*types.Basic)
			if !ok || b.Kind() != types.Uint8 {
				return nil, false
			}
			rp.kind = "bytes"
		default:
			return nil, false
		}
		if strings.Contains(rp.gty, ".") {
			return nil, false // named types of other packages: keep the generator simple
		}
		ps = append(ps, rp)
	}
	return ps, len(ps) > 0
}

var quantRe = regexp.MustCompile(`\((forall|exists) `)

// topForms splits SMT-LIB text into its top-level forms (comments dropped).
func topForms(smt string) []string {
	var forms []string
	depth, start := 0, -1
	inStr, inCom, inBar := false, false, false
	for i := 0; i < len(smt); i++ {
		c := smt[i]
		switch {
		case inCom:
			if c == '\n' {
				inCom = false
			}
		case inStr:
			if c == '"' {
				inStr = false
			}
		case inBar:
			if c == '|' {
				inBar = false
			}
		case c == ';':
			inCom = true
		case c == '"':
			inStr = true
		case c == '|':
			inBar = true
		case c == '(':
			if depth == 0 {
				start = i
			}
			depth++
		case c == ')':
			depth--
			if depth == 0 && start >= 0 {
				forms = append(forms, smt[start:i+1])
				start = -1
			}
		}
	}
	return forms
}

// weaken drops every assertion that contains a quantifier and the trailing
// check-sat/get-model; declarations and ground facts stay.  With keepRec the
// fuelled recursive specification functions (sexp.go) are turned back into
// native define-fun-rec definitions, which the solver can evaluate on
// concrete arguments while it searches for a model.
func weaken(smt string, keepRec bool) string {
	forms, _ := parseSexps(smt)
	// executable stand-ins for uninterpreted library functions (candidate search only)
	replayDefs := ""
	defined := map[string]bool{}
	if keepRec {
		if b, err := os.ReadFile(replayDefsPath); err == nil {
			replayDefs = string(b)
			dfs, _ := parseSexps(replayDefs)
			for _, d := range dfs {
				if d.isL && len(d.list) > 1 && strings.HasPrefix(d.list[0].atom, "define-fun") {
					defined[d.list[1].atom] = true
				}
			}
		}
	}
	rec := map[string]bool{}
	for _, f := range forms {
		if f.isL && len(f.list) >= 2 && f.list[0].atom == "declare-fun" && strings.HasSuffix(f.list[1].atom, "!C") {
			rec[strings.TrimSuffix(f.list[1].atom, "!C")] = true
		}
	}
	retSort := map[string]string{}
	var sb strings.Builder
	for _, f := range forms {
		if !f.isL || len(f.list) == 0 {
			continue
		}
		head := f.list[0].atom
		txt := f.String()
		switch head {
		case "check-sat", "get-model", "get-value", "define-fun-rec", "define-funs-rec":
			continue
		case "set-logic":
			sb.WriteString(txt + "\n" + replayDefs)
			continue
		case "declare-fun":
			name := f.list[1].atom
			if defined[name] {
				continue
			}
			base := strings.TrimSuffix(name, "!C")
			if rec[base] {
				if keepRec {
					if name == base {
						retSort[base] = f.list[3].String()
					}
					continue // re-introduced below as define-fun-rec
				}
			}
		case "assert":
			if keepRec && len(f.list) == 2 {
				if d := recDefinition(f.list[1], rec, retSort); d != "" {
					if d != "-" {
						sb.WriteString(d + "\n")
					}
					continue
				}
			}
			if quantRe.MatchString(txt) {
				continue
			}
		}
		sb.WriteString(txt)
		sb.WriteByte('\n')
	}
	return sb.String()
}

// recDefinition recognises the two axioms fuelRewrite emits for a recursive
// function f: the synonym axiom (returns "-") and the defining axiom (returns
// the native definition).
func recDefinition(q *sx, rec map[string]bool, retSort map[string]string) string {
	if !q.isL || len(q.list) != 3 || q.list[0].atom != "forall" {
		return ""
	}
	params, body := q.list[1], q.list[2]
	if !body.isL || len(body.list) < 2 || body.list[0].atom != "!" {
		return ""
	}
	eq := body.list[1]
	if !eq.isL || len(eq.list) != 3 || eq.list[0].atom != "=" || !eq.list[1].isL || len(eq.list[1].list) == 0 {
		return ""
	}
	lhs := eq.list[1].list[0].atom
	if strings.HasSuffix(lhs, "!C") && rec[strings.TrimSuffix(lhs, "!C")] {
		return "-"
	}
	if !rec[lhs] || retSort[lhs] == "" {
		return ""
	}
	return "(define-fun-rec " + lhs + " " + params.String() + " " + retSort[lhs] + " " + eq.list[2].rename(lhs+"!C", lhs).String() + ")"
}

func runZ3(script string, dir string, tS int) string {
	f := filepath.Join(dir, fmt.Sprintf("replay-%d.smt2", time.Now().UnixNano()))
	os.WriteFile(f, []byte(script), 0o644)
	defer os.Remove(f)
	ctx, cancel := context.WithTimeout(context.Background(), time.Duration(tS+2)*time.Second)
	defer cancel()
	cmd := exec.CommandContext(ctx, "z3-new", fmt.Sprintf("-T:%d", tS), f)
	var out bytes.Buffer
	cmd.Stdout = &out
	cmd.Stderr = &out
	_ = cmd.Run()
	return out.String()
}

var valRe = regexp.MustCompile(`\(\(([^()]|\([^()]*\))+? (\(- )?(\d+|true|false)\)?\)`)

// parseValues reads the answer of (get-value (t1 t2 …)) positionally.
func parseValues(out string, n int) ([]string, bool) {
	i := strings.Index(out, "((")
	if i < 0 {
		return nil, false
	}
	body := out[i:]
	var vals []string
	// each entry ends with " <value>)" where value is d | (- d) | true | false
	entryRe := regexp.MustCompile(`\s(\(-\s*\d+\)|\d+|true|false)\)\s*(\(|\)$|\)\s*$)`)
	rest := body
	for len(vals) < n {
		loc := entryRe.FindStringSubmatchIndex(rest)
		if loc == nil {
			break
		}
		v := rest[loc[2]:loc[3]]
		v = strings.NewReplacer("(", "", ")", "", " ", "").Replace(v)
		vals = append(vals, v)
		rest = rest[loc[3]+1:]
	}
	return vals, len(vals) == n
}

const replayMaxLen = 48
const replayBudget = 10

var replayCount int

var replayDefsPath = "/verif/spec/replay_defs.smt2.txt"

func tryReplay(e *Engine, res *SolveResult, frs []*FuncResult) *ReplayResult {
	fnKey := strings.TrimSuffix(res.Obl.Func, "#errflow")
	fn := e.fns[fnKey]
	ps, ok := replayable(fn)
	if !ok || res.File == "" {
		return nil
	}
	replayCount++
	if replayCount > replayBudget {
		return &ReplayResult{Log: fmt.Sprintf("replay not attempted: more than %d failed obligations in this run\n", replayBudget)}
	}
	raw, err := os.ReadFile(res.File)
	if err != nil {
		return nil
	}
	tmp, err := os.MkdirTemp("", "govc-replay")
	if err != nil {
		return nil
	}
	defer os.RemoveAll(tmp)
	total := &ReplayResult{}
	seen := map[string]bool{}
	for _, keepRec := range []bool{true, false} {
		for _, maxLen := range []int{8, replayMaxLen} {
			r := replayAttempt(e, fn, ps, string(raw), res, tmp, keepRec, maxLen, seen)
			total.Log += r.Log
			if r.TestSrc != "" {
				total.TestSrc = r.TestSrc
				total.PkgDir = r.PkgDir
			}
			if r.Confirmed {
				total.Confirmed = true
				return total
			}
		}
	}
	return total
}

func replayAttempt(e *Engine, fn *ssa.Function, ps []replayParam, raw string, res *SolveResult, tmp string, keepRec bool, maxLen int, seen map[string]bool) *ReplayResult {
	log := &strings.Builder{}
	fmt.Fprintf(log, "-- candidate search (recursive spec functions %s, slice length <= %d)\n", map[bool]string{true: "kept", false: "dropped"}[keepRec], maxLen)
	base := "(set-option :produce-models true)\n" + weaken(raw, keepRec)
	if !strings.Contains(base, "(declare-const BM_in ") {
		base += "(declare-const BM_in (Array Int (Array Int Int)))\n"
	}
	var sizeTerms []string
	for _, p := range ps {
		if !strings.Contains(base, "(declare-const "+p.name+" ") {
			fmt.Fprintf(log, "parameter symbol %s not found\n", p.name)
			return &ReplayResult{Log: log.String()}
		}
		switch p.kind {
		case "bytes", "string":
			base += fmt.Sprintf("(assert (<= (s_len %s) %d))\n", p.name, maxLen)
			sizeTerms = append(sizeTerms, "(s_len "+p.name+")", "(s_base "+p.name+")")
		case "int", "bool":
			sizeTerms = append(sizeTerms, p.name, p.name)
		}
	}
	out1 := runZ3(base+"(check-sat)\n(get-value ("+strings.Join(sizeTerms, " ")+"))\n", tmp, 10)
	first := firstVerdict(out1)
	if first != "sat" {
		fmt.Fprintf(log, "weakened query answered %q (no candidate input)\n", first)
		return &ReplayResult{Log: log.String()}
	}
	v1, ok := parseValues(out1, len(sizeTerms))
	if !ok {
		fmt.Fprintf(log, "could not read the solver's values\n")
		return &ReplayResult{Log: log.String()}
	}
	// second query: fix the shapes, read every element
	q2 := base
	var terms []string
	type shape struct{ n, base int }
	shapes := map[string]shape{}
	for i, p := range ps {
		if p.kind == "bytes" || p.kind == "string" {
			n, _ := strconv.Atoi(v1[2*i])
			b, _ := strconv.Atoi(v1[2*i+1])
			shapes[p.name] = shape{n, b}
			q2 += fmt.Sprintf("(assert (= (s_len %s) %d))\n(assert (= (= (s_base %s) 0) %v))\n", p.name, n, p.name, b == 0)
			for k := 0; k < n; k++ {
				terms = append(terms, fmt.Sprintf("(select (select BM_in (s_base %s)) (idx (s_off %s) %d))", p.name, p.name, k))
			}
		} else {
			terms = append(terms, p.name)
		}
	}
	var v2 []string
	if len(terms) > 0 {
		out2 := runZ3(q2+"(check-sat)\n(get-value ("+strings.Join(terms, " ")+"))\n", tmp, 10)
		if firstVerdict(out2) != "sat" {
			fmt.Fprintf(log, "second query not sat\n")
			return &ReplayResult{Log: log.String()}
		}
		v2, ok = parseValues(out2, len(terms))
		if !ok {
			fmt.Fprintf(log, "could not read element values\n")
			return &ReplayResult{Log: log.String()}
		}
	}
	var args []string
	pos := 0
	for _, p := range ps {
		switch p.kind {
		case "int":
			args = append(args, p.gty+"("+v2[pos]+")")
			pos++
		case "bool":
			args = append(args, v2[pos])
			pos++
		case "bytes", "string":
			sh := shapes[p.name]
			var bs []string
			for k := 0; k < sh.n; k++ {
				x, _ := strconv.Atoi(v2[pos])
				pos++
				bs = append(bs, strconv.Itoa(((x%256)+256)%256))
			}
			lit := "[]byte{" + strings.Join(bs, ", ") + "}"
			if p.kind == "string" {
				args = append(args, "string("+lit+")")
			} else if sh.base == 0 && sh.n == 0 {
				args = append(args, "[]byte(nil)")
			} else {
				args = append(args, lit)
			}
		}
	}
	call := fn.Name() + "(" + strings.Join(args, ", ") + ")"
	fmt.Fprintf(log, "candidate input: %s\n", call)
	if seen[call] {
		fmt.Fprintf(log, "(already executed)\n")
		return &ReplayResult{Log: log.String()}
	}
	seen[call] = true
	src := "package " + fn.Pkg.Pkg.Name() + "\n\nimport \"testing\"\n\n// candidate input for obligation " + res.Obl.Name + "\nfunc TestGovcReplay(t *testing.T) {\n\tdefer func() {\n\t\tif r := recover(); r != nil {\n\t\t\tt.Fatalf(\"GOVC-REPLAY-PANIC: %v\", r)\n\t\t}\n\t}()\n\t" + discardResults(fn) + call + "\n}\n"
	pkgDir := e.repo
	if rel := strings.TrimPrefix(fn.Pkg.Pkg.Path(), "github.com/cosmos/iavl"); rel != "" {
		pkgDir = filepath.Join(e.repo, rel)
	}
	testFile := filepath.Join(tmp, "zz_govc_replay_test.go")
	os.WriteFile(testFile, []byte(src), 0o644)
	for _, f := range []string{"go.mod", "go.sum"} {
		if b, err := os.ReadFile(filepath.Join(e.repo, f)); err == nil {
			os.WriteFile(filepath.Join(tmp, f), b, 0o644)
		}
	}
	ov, _ := json.Marshal(map[string]map[string]string{"Replace": {filepath.Join(pkgDir, "zz_govc_replay_test.go"): testFile}})
	os.WriteFile(filepath.Join(tmp, "ov.json"), ov, 0o644)
	ctx, cancel := context.WithTimeout(context.Background(), 180*time.Second)
	defer cancel()
	cmd := exec.CommandContext(ctx, "go", "test", "-modfile="+filepath.Join(tmp, "go.mod"), "-overlay", filepath.Join(tmp, "ov.json"), "-vet=off", "-count=1", "-timeout", "60s", "-run", "^TestGovcReplay$", ".")
	cmd.Dir = pkgDir
	cmd.Env = append(os.Environ(), "GOFLAGS=-mod=mod", "GOPROXY=off", "GOSUMDB=off", "GOTOOLCHAIN=local")
	var out bytes.Buffer
	cmd.Stdout = &out
	cmd.Stderr = &out
	_ = cmd.Run()
	o := out.String()
	confirmed := strings.Contains(o, "GOVC-REPLAY-PANIC") || strings.Contains(o, "fatal error:")
	if confirmed {
		fmt.Fprintf(log, "execution on the real code: the call PANICS — failing input confirmed\n")
	} else {
		fmt.Fprintf(log, "execution on the real code: no panic with this candidate (candidates come from a weakened query and need not fail)\n")
	}
	fmt.Fprintf(log, "%s\n", truncate(o, 2000))
	return &ReplayResult{Confirmed: confirmed, Log: log.String(), TestSrc: src, PkgDir: pkgDir}
}

func firstVerdict(out string) string {
	for _, l := range strings.Split(out, "\n") {
		l = strings.TrimSpace(l)
		if l == "sat" || l == "unsat" || l == "unknown" || l == "timeout" {
			return l
		}
	}
	return strings.TrimSpace(strings.SplitN(out, "\n", 2)[0])
}

func discardResults(fn *ssa.Function) string {
	n := fn.Signature.Results().Len()
	if n == 0 {
		return ""
	}
	return strings.TrimSuffix(strings.Repeat("_, ", n), ", ") + " = "
}


// unfuel turns the fuelled recursive specification functions (sexp.go) back
// into native define-fun-rec definitions and keeps everything else: used for
// specification-level lemmas, where the solver must unfold the definitions as
// deep as an induction step needs.
func unfuel(smt string) string {
	forms, _ := parseSexps(smt)
	rec := map[string]bool{}
	for _, f := range forms {
		if f.isL && len(f.list) >= 2 && f.list[0].atom == "declare-fun" && strings.HasSuffix(f.list[1].atom, "!C") {
			rec[strings.TrimSuffix(f.list[1].atom, "!C")] = true
		}
	}
	retSort := map[string]string{}
	var sb strings.Builder
	for _, f := range forms {
		if !f.isL || len(f.list) == 0 {
			continue
		}
		switch f.list[0].atom {
		case "declare-fun":
			name := f.list[1].atom
			base := strings.TrimSuffix(name, "!C")
			if rec[base] {
				if name == base {
					retSort[base] = f.list[3].String()
				}
				continue
			}
		case "assert":
			if len(f.list) == 2 {
				if d := recDefinition(f.list[1], rec, retSort); d != "" {
					if d != "-" {
						sb.WriteString(d + "\n")
					}
					continue
				}
			}
		}
		sb.WriteString(f.String())
		sb.WriteByte('\n')
	}
	return sb.String()
}
