package main

// replay.go — turning solver models into executions of the real code.

import "encoding/json"

type ReplayResult struct {
	Confirmed bool
	Log       string
	TestSrc   string
}

func jsonUnmarshal(b []byte, v interface{}) error { return json.Unmarshal(b, v) }

// tryReplay attempts to reconstruct a failing input from a model.
func tryReplay(e *Engine, res *SolveResult, frs []*FuncResult) *ReplayResult {
	return nil
}
