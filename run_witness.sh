#!/bin/bash
# run_witness.sh <witness file (.go.txt, package iavl)> <TestName> [extra go test flags]
# Runs a witness test against /repo through a build overlay (the repository is not written).
# Exit status 0 = the test FAILED (the defect is reproduced), 1 = it passed (not reproduced).
set -u
export GOFLAGS=-mod=mod GOPROXY=off GOSUMDB=off GOTOOLCHAIN=local
w="$1"; name="$2"; shift 2
tmp=$(mktemp -d); trap 'rm -rf "$tmp"' EXIT
cp /repo/go.mod /repo/go.sum "$tmp"/
printf '{"Replace":{"/repo/zz_witness_test.go":"%s"}}' "$w" > "$tmp/ov.json"
out=$(cd /repo && go test -modfile="$tmp/go.mod" -overlay "$tmp/ov.json" -vet=off -count=1 -timeout 120s -run "^${name}\$" "$@" . 2>&1)
echo "$out" | tail -25
if echo "$out" | grep -q "^--- FAIL\|^FAIL\|panic:\|fatal error"; then exit 0; fi
exit 1
